(* Proofs about Model/TimeIntegration.v *)
From Coq Require Import QArith Qreals Reals List Arith Lia Lra Bool.
From OSU.Model Require Import TimeIntegration.
Import ListNotations.

(* ================================================================== *)
(* 1. the finite stencil table, in exact rational arithmetic           *)
(* ================================================================== *)

Definition qsum (l : list Q) : Q := fold_right Qplus 0%Q l.

Definition pairs : list (nat * nat) :=
  flat_map (fun o => map (fun n => (o, n)) (seq 1 o)) (seq 1 8).

Lemma in_pairs o n : (1 <= o <= 8)%nat -> (1 <= n <= o)%nat -> In (o, n) pairs.
Proof.
  intros Ho Hn. unfold pairs. apply in_flat_map. exists o. split.
  - apply in_seq. lia.
  - apply in_map. apply in_seq. lia.
Qed.

Definition triples : list (nat * nat * nat) :=
  flat_map (fun on => map (fun d => (on, d)) (seq 0 (fst on))) pairs.

Lemma in_triples o n d : (1 <= o <= 8)%nat -> (1 <= n <= o)%nat -> (d < o)%nat -> In (o, n, d) triples.
Proof.
  intros Ho Hn Hd. unfold triples. apply in_flat_map. exists (o, n). split.
  - now apply in_pairs.
  - cbn [fst]. apply (in_map (fun d0 => (o, n, d0))). apply in_seq. lia.
Qed.

(* weights sum to one *)
Definition sum_ok (on : nat * nat) : bool := Qeq_bool (qsum (stencil (fst on) (snd on))) 1.
Lemma sum_table : forallb sum_ok pairs = true.
Proof. vm_compute. reflexivity. Qed.

Lemma stencil_sum_one o n :
  (1 <= o <= 8)%nat -> (1 <= n <= o)%nat -> (qsum (stencil o n) == 1)%Q.
Proof.
  intros Ho Hn. apply Qeq_bool_eq.
  exact (proj1 (forallb_forall sum_ok pairs) sum_table (o, n) (in_pairs o n Ho Hn)).
Qed.

Lemma stencil_length_table : forallb (fun on => Nat.eqb (length (stencil (fst on) (snd on))) (fst on)) pairs = true.
Proof. vm_compute. reflexivity. Qed.

Lemma stencil_length o n : length (stencil o n) = o.
Proof. unfold stencil. now rewrite map_length, seq_length. Qed.

(* discrete moments of the stencil: sum_i w_i * offset_i^d *)
Fixpoint momQ_aux (w : list Q) (o n i d : nat) : Q :=
  match w with
  | [] => 0
  | wk :: ws => wk * qpow (inject_Z (offsetZ o n i)) d + momQ_aux ws o n (S i) d
  end%Q.
Definition momQ (o n d : nat) : Q := momQ_aux (stencil o n) o n 0 d.

(* integral of x^d over [-1,0] *)
Definition targetQ (d : nat) : Q := (qpow (-1) d / inject_Z (Z.of_nat (S d)))%Q.

Definition mom_ok (t : nat * nat * nat) : bool :=
  let '(o, n, d) := t in Qeq_bool (momQ o n d) (targetQ d).
Lemma mom_table : forallb mom_ok triples = true.
Proof. vm_compute. reflexivity. Qed.

Lemma stencil_exact_monomial o n d :
  (1 <= o <= 8)%nat -> (1 <= n <= o)%nat -> (d < o)%nat -> (momQ o n d == targetQ d)%Q.
Proof.
  intros Ho Hn Hd. apply Qeq_bool_eq.
  exact (proj1 (forallb_forall mom_ok triples) mom_table (o, n, d) (in_triples o n d Ho Hn Hd)).
Qed.

(* independent definition: exact integral over [-1,0] of the Lagrange basis polynomial
   through the nodes offset_0 .. offset_{o-1}, by polynomial arithmetic (ascending coefficients) *)
Fixpoint padd (p q : list Q) : list Q :=
  match p, q with
  | [], _ => q
  | _, [] => p
  | a :: p', b :: q' => (a + b)%Q :: padd p' q'
  end.
Definition pscale (c : Q) (p : list Q) : list Q := map (Qmult c) p.
(* multiply by (x - r) *)
Definition pmul_lin (r : Q) (p : list Q) : list Q := padd (pscale (- r) p) (0%Q :: p).
Fixpoint pint_aux (p : list Q) (k : nat) (x : Q) : Q :=   (* sum c_k x^{k+1}/(k+1) *)
  match p with
  | [] => 0
  | c :: p' => c * qpow x (S k) / inject_Z (Z.of_nat (S k)) + pint_aux p' (S k) x
  end%Q.
Definition basis_poly (o n i : nat) : list Q :=
  fold_left (fun p j => if Nat.eqb j i then p
                        else pscale (/ (inject_Z (offsetZ o n i) - inject_Z (offsetZ o n j)))
                                    (pmul_lin (inject_Z (offsetZ o n j)) p))
            (seq 0 o) [1%Q].
Definition basis_integral (o n i : nat) : Q :=
  (pint_aux (basis_poly o n i) 0 0 - pint_aux (basis_poly o n i) 0 (-1))%Q.

Definition lag_ok (on : nat * nat) : bool :=
  let '(o, n) := on in
  forallb (fun i => Qeq_bool (qnth (stencil o n) i) (basis_integral o n i)) (seq 0 o).
Lemma lag_table : forallb lag_ok pairs = true.
Proof. vm_compute. reflexivity. Qed.

Lemma stencil_is_lagrange_integral o n i :
  (1 <= o <= 8)%nat -> (1 <= n <= o)%nat -> (i < o)%nat ->
  (qnth (stencil o n) i == basis_integral o n i)%Q.
Proof.
  intros Ho Hn Hi. apply Qeq_bool_eq.
  pose proof (proj1 (forallb_forall lag_ok pairs) lag_table (o, n) (in_pairs o n Ho Hn)) as H.
  cbn in H. rewrite forallb_forall in H. apply H. apply in_seq. lia.
Qed.

(* ================================================================== *)
(* 2. lifting to every polynomial of degree < order, over R            *)
(* ================================================================== *)
Open Scope R_scope.

(* Horner evaluation, ascending coefficients *)
Fixpoint evalR (c : list R) (x : R) : R :=
  match c with [] => 0 | c0 :: cs => c0 + x * evalR cs x end.

Fixpoint momR_aux (w : list R) (o n i d : nat) : R :=
  match w with
  | [] => 0
  | wk :: ws => wk * (IZR (offsetZ o n i)) ^ d + momR_aux ws o n (S i) d
  end.

(* sum_i w_i * off_i^k * p(off_i) *)
Fixpoint applyR_aux (w : list R) (o n i k : nat) (c : list R) : R :=
  match w with
  | [] => 0
  | wk :: ws => wk * (IZR (offsetZ o n i)) ^ k * evalR c (IZR (offsetZ o n i)) + applyR_aux ws o n (S i) k c
  end.

Fixpoint lincomb (c : list R) (k : nat) (M : nat -> R) : R :=
  match c with [] => 0 | c0 :: cs => c0 * M k + lincomb cs (S k) M end.

Lemma applyR_nil w o n i k : applyR_aux w o n i k [] = 0.
Proof. revert i; induction w as [|wk ws IH]; intros i; cbn; [reflexivity|]. rewrite IH. ring. Qed.

Lemma applyR_cons w o n i k c0 cs :
  applyR_aux w o n i k (c0 :: cs) = c0 * momR_aux w o n i k + applyR_aux w o n i (S k) cs.
Proof.
  revert i; induction w as [|wk ws IH]; intros i; cbn [applyR_aux momR_aux evalR].
  - ring.
  - rewrite IH. cbn [pow]. ring.
Qed.

Lemma applyR_lincomb w o n i c : forall k,
  applyR_aux w o n i k c = lincomb c k (fun d => momR_aux w o n i d).
Proof.
  induction c as [|c0 cs IH]; intros k; cbn [lincomb].
  - apply applyR_nil.
  - rewrite applyR_cons, IH. reflexivity.
Qed.

Lemma lincomb_ext c : forall k M T,
  (forall d, (k <= d < k + length c)%nat -> M d = T d) -> lincomb c k M = lincomb c k T.
Proof.
  induction c as [|c0 cs IH]; intros k M T H; cbn [lincomb]; [reflexivity|].
  rewrite (H k) by (cbn [length]; lia). f_equal. apply IH. intros d Hd. apply H. cbn [length]. lia.
Qed.

Lemma Q2R_qpow q k : Q2R (qpow q k) = (Q2R q) ^ k.
Proof. induction k as [|k IH]; cbn [qpow pow]; [apply RMicromega.Q2R_1 | rewrite Q2R_mult, IH; reflexivity]. Qed.

Lemma Q2R_inject_Z z : Q2R (inject_Z z) = IZR z.
Proof. unfold Q2R, inject_Z; cbn. field. Qed.

Lemma Q2R_momQ_aux w o n i d :
  Q2R (momQ_aux w o n i d) = momR_aux (map Q2R w) o n i d.
Proof.
  revert i; induction w as [|wk ws IH]; intros i; cbn [momQ_aux momR_aux map].
  - apply RMicromega.Q2R_0.
  - rewrite Q2R_plus, Q2R_mult, Q2R_qpow, Q2R_inject_Z, IH. reflexivity.
Qed.

Definition targetR (d : nat) : R := (-1) ^ d / INR (S d).

Lemma Q2R_targetQ d : Q2R (targetQ d) = targetR d.
Proof.
  unfold targetQ, targetR. rewrite Q2R_div.
  - rewrite Q2R_qpow, Q2R_inject_Z. rewrite <- INR_IZR_INZ. f_equal. f_equal.
    unfold Q2R; cbn. field.
  - intro H. unfold Qeq in H. cbn in H. lia.
Qed.

Lemma momR_target o n d :
  (1 <= o <= 8)%nat -> (1 <= n <= o)%nat -> (d < o)%nat ->
  momR_aux (stencilR o n) o n 0 d = targetR d.
Proof.
  intros Ho Hn Hd. unfold stencilR. rewrite <- Q2R_momQ_aux, <- Q2R_targetQ.
  apply Qeq_eqR. now apply stencil_exact_monomial.
Qed.

(* integral over [-1,0] of sum_d c_d x^d *)
Definition integral_m1_0 (c : list R) : R := lincomb c 0 targetR.

Lemma stencil_exact_poly o n c :
  (1 <= o <= 8)%nat -> (1 <= n <= o)%nat -> (length c <= o)%nat ->
  applyR_aux (stencilR o n) o n 0 0 c = integral_m1_0 c.
Proof.
  intros Ho Hn Hc. rewrite applyR_lincomb. unfold integral_m1_0.
  apply lincomb_ext. intros d Hd. apply momR_target; lia.
Qed.

(* ================================================================== *)
(* 3. integrate                                                        *)
(* ================================================================== *)

Lemma integrate_start t x o n s : hd 0 (integrate t x o n s) = s.
Proof. reflexivity. Qed.

Lemma go_length t x prim n width nt idx : forall s p,
  length (go t x prim n width nt idx s p) = length idx.
Proof.
  induction idx as [|ii rest IH]; intros s p; cbn [go length]; [reflexivity|].
  destruct (ctl_step t n width nt s ii) as [s' up]. cbn [length]. now rewrite IH.
Qed.

Lemma integrate_length t x o n s : x <> [] -> length (integrate t x o n s) = length x.
Proof.
  intros Hx. unfold integrate. cbn [length]. rewrite go_length, seq_length.
  destruct x; [congruence|]. cbn [length]. lia.
Qed.

(* pointwise linear combination of two signals of the same length *)
Fixpoint lc (a b : R) (x y : list R) : list R :=
  match x, y with
  | xv :: xs, yv :: ys => (a * xv + b * yv) :: lc a b xs ys
  | _, _ => []
  end.

Lemma lc_length a b x y : length x = length y -> length (lc a b x y) = length x.
Proof.
  revert y; induction x as [|xv xs IH]; intros [|yv ys] H; cbn in *; try congruence.
  f_equal. apply IH. lia.
Qed.

Lemma rnth_lc a b x y i : length x = length y ->
  rnth (lc a b x y) i = a * rnth x i + b * rnth y i.
Proof.
  revert y i; induction x as [|xv xs IH]; intros [|yv ys] i H; cbn in H; try discriminate.
  - unfold rnth. destruct i; cbn; ring.
  - destruct i as [|i]; unfold rnth in *; cbn [lc nth]; [ring|]. apply IH. lia.
Qed.

Lemma dotwin_lc a b w x y : length x = length y -> forall s,
  dotwin w (lc a b x y) s = a * dotwin w x s + b * dotwin w y s.
Proof.
  intros H. induction w as [|wk ws IH]; intros s; cbn [dotwin]; [ring|].
  rewrite IH, rnth_lc by assumption. ring.
Qed.

Lemma delta_lc a b x y prim n width ii up : length x = length y ->
  delta_of (lc a b x y) prim n width ii up
  = a * delta_of x prim n width ii up + b * delta_of y prim n width ii up.
Proof.
  intros H. unfold delta_of. destruct up.
  - now apply dotwin_lc.
  - rewrite !rnth_lc by assumption. lra.
Qed.

Lemma go_linear a b t x y prim n width nt idx : length x = length y -> forall s p q,
  go t (lc a b x y) prim n width nt idx s (a * p + b * q)
  = lc a b (go t x prim n width nt idx s p) (go t y prim n width nt idx s q).
Proof.
  intros H. induction idx as [|ii rest IH]; intros s p q; cbn [go]; [reflexivity|].
  destruct (ctl_step t n width nt s ii) as [s' up]. cbn [lc].
  rewrite delta_lc by assumption.
  set (dx := delta_of x prim n width ii up). set (dy := delta_of y prim n width ii up).
  set (dt := rnth t ii - rnth t (ii - 1)).
  replace (a * p + b * q + (a * dx + b * dy) * dt) with (a * (p + dx * dt) + b * (q + dy * dt)) by ring.
  f_equal. apply IH.
Qed.

(* the stencil choice (hence the control flow) depends on the time vector only: both runs
   below use the same ctl_step, which does not mention the signal *)
Lemma integrate_linear a b t x y o n s1 s2 : length x = length y ->
  integrate t (lc a b x y) o n (a * s1 + b * s2)
  = lc a b (integrate t x o n s1) (integrate t y o n s2).
Proof.
  intros H. unfold integrate. cbn [lc]. f_equal.
  rewrite lc_length by assumption. rewrite <- H. now apply go_linear.
Qed.

Lemma go_shift c t x prim n width nt idx : forall s p,
  go t x prim n width nt idx s (p + c) = map (fun v => v + c) (go t x prim n width nt idx s p).
Proof.
  induction idx as [|ii rest IH]; intros s p; cbn [go map]; [reflexivity|].
  destruct (ctl_step t n width nt s ii) as [s' up]. cbn [map].
  set (d := delta_of x prim n width ii up * (rnth t ii - rnth t (ii - 1))).
  replace (p + c + d) with (p + d + c) by ring. f_equal. apply IH.
Qed.

Lemma integrate_shift c t x o n s :
  integrate t x o n (s + c) = map (fun v => v + c) (integrate t x o n s).
Proof. unfold integrate. cbn [map]. f_equal. apply go_shift. Qed.

(* every increment is delta * dt of the chosen stencil *)
Lemma go_increment t x prim n width nt idx : forall s p k,
  (k < length idx)%nat ->
  exists up, nth k (choices t n width nt idx s) false = up /\
  nth k (go t x prim n width nt idx s p) 0
  = nth k (p :: go t x prim n width nt idx s p) 0
    + delta_of x prim n width (nth k idx O) up * (rnth t (nth k idx O) - rnth t (nth k idx O - 1)).
Proof.
  induction idx as [|ii rest IH]; intros s p k Hk; cbn [length] in Hk; [lia|].
  cbn [go choices]. destruct (ctl_step t n width nt s ii) as [s' up] eqn:E.
  destruct k as [|k].
  - exists up. cbn [nth]. split; reflexivity.
  - cbn [nth]. destruct (IH s' (p + delta_of x prim n width ii up * (rnth t ii - rnth t (ii - 1))) k) as [up' [H1 H2]]; [lia|].
    exists up'. split; [exact H1|]. exact H2.
Qed.

(* ---- the jitter rule ---- *)
Lemma jitter_forces_trapezoid t n width nt s ii :
  let curr := rnth t ii - rnth t (ii - 1) in
  let fut := if Nat.ltb (ii + n - 1) nt then rnth t (ii + n - 1) - rnth t (ii + n - 2) else curr in
  Rabs (fut - prev_dt s) > 1 / 100 * curr ->
  snd (ctl_step t n width nt s ii) = false.
Proof.
  intros curr fut H. unfold ctl_step. fold curr. fold fut.
  destruct (Rgt_dec (Rabs (fut - prev_dt s)) (1 / 100 * curr)) as [_|Hn]; [|contradiction].
  reflexivity.
Qed.

Lemma tail_forces_trapezoid t n width nt s ii :
  (nt <= ii + n - 1)%nat -> snd (ctl_step t n width nt s ii) = false.
Proof.
  intros H. unfold ctl_step. apply Nat.ltb_ge in H. rewrite H.
  destruct (Rgt_dec _ _); reflexivity.
Qed.

Lemma restart_forces_trapezoid t n width nt s ii :
  restart s = true -> snd (ctl_step t n width nt s ii) = false.
Proof.
  intros H. unfold ctl_step. rewrite H.
  destruct (Nat.ltb (ii + n - 1) nt); destruct (Rgt_dec _ _); reflexivity.
Qed.

Lemma primary_only_if t n width nt s ii :
  snd (ctl_step t n width nt s ii) = true ->
  restart s = false /\ (ii + n - 1 < nt)%nat /\ fst (ctl_step t n width nt s ii) = mkctl (rnth t ii - rnth t (ii - 1)) false (nconst s).
Proof.
  unfold ctl_step. destruct (Nat.ltb (ii + n - 1) nt) eqn:E.
  - destruct (Rgt_dec _ _); cbn; [discriminate|]. destruct (restart s); cbn; [discriminate|].
    intros _. apply Nat.ltb_lt in E. auto.
  - destruct (Rgt_dec _ _); cbn; discriminate.
Qed.

(* after a restart with nconst = c < width, the next (width - c) steps are all trapezoidal *)
Lemma restart_needs_width_steps t n width nt idx : forall s k,
  restart s = true -> (nconst s < width)%nat -> (k < width - nconst s)%nat -> (k < length idx)%nat ->
  nth k (choices t n width nt idx s) true = false.
Proof.
  induction idx as [|ii rest IH]; intros s k Hr Hc Hk Hl; cbn [length] in Hl; [lia|].
  cbn [choices]. destruct (ctl_step t n width nt s ii) as [s' up] eqn:E.
  pose proof (restart_forces_trapezoid t n width nt s ii Hr) as Hup. rewrite E in Hup. cbn in Hup. subst up.
  destruct k as [|k]; [reflexivity|]. cbn [nth].
  unfold ctl_step in E. rewrite Hr in E.
  destruct (Nat.ltb (ii + n - 1) nt); destruct (Rgt_dec _ _); cbv beta iota zeta in E.
  all: match type of E with context [Nat.eqb ?a ?b] => destruct (Nat.eqb_spec a b) as [He|He] end.
  all: cbv beta iota zeta in E; inversion E; subst s'; clear E.
  all: cbn [restart nconst] in *; try lia.
  all: apply IH; cbn [restart nconst]; try reflexivity; try lia.
Qed.

(* ---- the primary stencil never reads before index 0 ---- *)
Definition ctl_inv (width : nat) (s : ctl) (steps : nat) : Prop :=
  (nconst s <= steps)%nat /\ (restart s = false -> nconst s = width).

Lemma ctl_step_inv t n width nt s ii steps :
  ctl_inv width s steps -> ctl_inv width (fst (ctl_step t n width nt s ii)) (S steps).
Proof.
  intros [H1 H2]. unfold ctl_step, ctl_inv.
  destruct (Nat.ltb (ii + n - 1) nt); destruct (Rgt_dec _ _); cbv beta iota zeta.
  all: try (destruct (restart s) eqn:Er; cbv beta iota zeta).
  all: try match goal with |- context [Nat.eqb ?a ?b] => destruct (Nat.eqb_spec a b) as [He|He] end.
  all: cbn [fst nconst restart]; split; intros; try discriminate; try lia.
  all: try (specialize (H2 eq_refl); lia).
Qed.

Lemma primary_index_safe_aux t n width nt idx : forall s first k,
  ctl_inv width s (first - 1) ->
  idx = seq first (length idx) -> (1 <= first)%nat ->
  (k < length idx)%nat ->
  nth k (choices t n width nt idx s) false = true ->
  (width - n <= first + k)%nat.
Proof.
  induction idx as [|ii rest IH]; intros s first k Hinv Hidx Hf Hk Hc; cbn [length] in *; [lia|].
  cbn [seq] in Hidx. injection Hidx as Hii Hrest. subst ii.
  cbn [choices] in Hc. destruct (ctl_step t n width nt s first) as [s' up] eqn:E.
  destruct k as [|k]; cbn [nth] in Hc.
  - subst up. pose proof (primary_only_if t n width nt s first) as P. rewrite E in P. cbn [snd] in P.
    destruct (P eq_refl) as [Hr _]. destruct Hinv as [H1 H2]. specialize (H2 Hr). lia.
  - pose proof (ctl_step_inv t n width nt s first (first - 1) Hinv) as Hinv'. rewrite E in Hinv'. cbn [fst] in Hinv'.
    replace (first + S k)%nat with (S first + k)%nat by lia.
    apply (IH s' (S first) k); try assumption; try lia.
    replace (S first - 1)%nat with (S (first - 1)) by lia. exact Hinv'.
Qed.

Lemma primary_index_safe t n width nt m k :
  let s0 := mkctl (rnth t 1 - rnth t 0) true O in
  (k < m)%nat ->
  nth k (choices t n width nt (seq 1 m) s0) false = true ->
  (width - n <= 1 + k)%nat.
Proof.
  intros s0 Hk Hc.
  apply (primary_index_safe_aux t n width nt (seq 1 m) s0 1%nat k); try lia.
  - split; cbn; [lia | discriminate].
  - now rewrite seq_length.
  - now rewrite seq_length.
  - exact Hc.
Qed.

(* ---- cubic exactness of one step of the order-4 stencils on a uniform stretch ---- *)
Definition cubic (a0 a1 a2 a3 t : R) : R := a0 + a1 * t + a2 * t ^ 2 + a3 * t ^ 3.
Definition cubic_prim (a0 a1 a2 a3 t : R) : R := a0 * t + a1 * t ^ 2 / 2 + a2 * t ^ 3 / 3 + a3 * t ^ 4 / 4.

Lemma stencil4_values :
  stencil 4 1 = [ (40310784 # 967458816); (-30720 # 147456); (116736 # 147456); (362797056 # 967458816) ]%Q.
Proof. vm_compute. reflexivity. Qed.

Lemma cubic_exact_step (n : nat) a0 a1 a2 a3 tb h :
  (1 <= n <= 4)%nat -> h <> 0 ->
  let x := map (fun k => cubic a0 a1 a2 a3 (tb + INR k * h)) (seq 0 4) in
  let tcur := tb + INR (4 - n) * h in
  dotwin (stencilR 4 n) x 0 * h = cubic_prim a0 a1 a2 a3 tcur - cubic_prim a0 a1 a2 a3 (tcur - h).
Proof.
  intros Hn Hh.
  assert (Hc : n = 1%nat \/ n = 2%nat \/ n = 3%nat \/ n = 4%nat) by lia.
  destruct Hc as [-> | [-> | [-> | ->]]].
  all: unfold stencilR.
  all: match goal with |- context [stencil 4 ?k] =>
         let v := eval vm_compute in (stencil 4 k) in change (stencil 4 k) with v end.
  all: cbn [map seq dotwin rnth nth INR Nat.sub].
  all: unfold Q2R, cubic, cubic_prim; cbn [Qnum Qden].
  all: field.
Qed.
