(* Proofs about Model/Dispersion.v (C07).  All statements are about the real-number model;
   nothing here is about floating point. *)
From Coq Require Import Reals List Bool Lra Lia.
From Coquelicot Require Import Coquelicot.
From OSU.Lib Require Import DispAux.
From OSU.Model Require Import Dispersion.
Import ListNotations.
Open Scope R_scope.

Definition depth_ok (d : depth) : Prop := match d with Deep => True | Depth x => 0 < x end.
Section Disp.
Variable g : R.
Hypothesis Hg : 0 < g.

Lemma omega_arg_pos k d : 0 < k -> 0 < d -> 0 < g * k * tanh (k * d).
Proof.
  intros. apply Rmult_lt_0_compat. apply Rmult_lt_0_compat; auto.
  apply tanh_pos. apply Rmult_lt_0_compat; auto.
Qed.

Lemma omega_pos k d : 0 < k -> depth_ok d -> 0 < omega g k d.
Proof.
  intros Hk Hd. destruct d as [|d]; simpl in *.
  - apply sqrt_lt_R0. apply Rmult_lt_0_compat; auto.
  - apply sqrt_lt_R0. apply omega_arg_pos; auto.
Qed.

Lemma omega_increasing k1 k2 d : 0 < k1 -> k1 < k2 -> depth_ok d -> omega g k1 d < omega g k2 d.
Proof.
  intros H1 H12 Hd. destruct d as [|d]; simpl in *.
  - apply sqrt_lt_1_alt. split. left; apply Rmult_lt_0_compat; auto.
    apply Rmult_lt_compat_l; auto.
  - apply sqrt_lt_1_alt. split. left; apply omega_arg_pos; auto.
    assert (T : tanh (k1 * d) < tanh (k2 * d)) by (apply tanh_incr; apply Rmult_lt_compat_r; auto).
    assert (T1 : 0 < tanh (k1 * d)) by (apply tanh_pos; apply Rmult_lt_0_compat; auto).
    assert (G : g * k1 < g * k2) by (apply Rmult_lt_compat_l; auto).
    assert (G1 : 0 < g * k1) by (apply Rmult_lt_0_compat; auto).
    apply Rle_lt_trans with (g * k1 * tanh (k2 * d)).
    + apply Rmult_le_compat_l; lra.
    + apply Rmult_lt_compat_r; lra.
Qed.

Lemma omega_injective k1 k2 d : 0 < k1 -> 0 < k2 -> depth_ok d -> omega g k1 d = omega g k2 d -> k1 = k2.
Proof.
  intros H1 H2 Hd E. destruct (Rtotal_order k1 k2) as [L|[L|L]]; auto.
  - pose proof (omega_increasing k1 k2 d H1 L Hd). lra.
  - pose proof (omega_increasing k2 k1 d H2 L Hd). lra.
Qed.

(* the exact root is increasing in w ... *)
Lemma root_increasing_in_w k1 k2 d : 0 < k1 -> 0 < k2 -> depth_ok d ->
  omega g k1 d < omega g k2 d -> k1 < k2.
Proof.
  intros H1 H2 Hd L. destruct (Rtotal_order k1 k2) as [C|[C|C]]; auto.
  - subst. lra.
  - pose proof (omega_increasing k2 k1 d H2 C Hd). lra.
Qed.

Lemma omega_increasing_in_depth k d1 d2 : 0 < k -> 0 < d1 -> d1 < d2 ->
  omega g k (Depth d1) < omega g k (Depth d2).
Proof.
  intros Hk H1 H12. simpl. apply sqrt_lt_1_alt. split. left; apply omega_arg_pos; auto.
  apply Rmult_lt_compat_l. apply Rmult_lt_0_compat; auto.
  apply tanh_incr. apply Rmult_lt_compat_l; auto.
Qed.

Lemma omega_le_deep k d : 0 < k -> 0 < d -> omega g k (Depth d) < omega g k Deep.
Proof.
  intros Hk Hd. simpl. apply sqrt_lt_1_alt. split. left; apply omega_arg_pos; auto.
  pose proof (tanh_lt_1 (k * d)). assert (0 < g * k) by (apply Rmult_lt_0_compat; auto).
  apply Rlt_le_trans with (g * k * 1); [apply Rmult_lt_compat_l; auto | lra].
Qed.

(* ... and decreasing in depth (finite to finite, finite to deep) *)
Lemma root_decreasing_in_depth k1 k2 d1 d2 w : 0 < k1 -> 0 < k2 -> 0 < d1 -> d1 < d2 ->
  omega g k1 (Depth d1) = w -> omega g k2 (Depth d2) = w -> k2 < k1.
Proof.
  intros H1 H2 Hd1 Hd E1 E2. destruct (Rle_lt_dec k1 k2) as [C|C]; auto. exfalso.
  pose proof (omega_increasing_in_depth k1 d1 d2 H1 Hd1 Hd) as A.
  destruct C as [C|C].
  - assert (Hd2 : depth_ok (Depth d2)) by (simpl; lra).
    pose proof (omega_increasing k1 k2 (Depth d2) H1 C Hd2). lra.
  - subst k2. lra.
Qed.

Lemma root_decreasing_to_deep k1 k2 d1 w : 0 < k1 -> 0 < k2 -> 0 < d1 ->
  omega g k1 (Depth d1) = w -> omega g k2 Deep = w -> k2 < k1.
Proof.
  intros H1 H2 Hd1 E1 E2. destruct (Rle_lt_dec k1 k2) as [C|C]; auto. exfalso.
  pose proof (omega_le_deep k1 d1 H1 Hd1) as A.
  destruct C as [C|C].
  - pose proof (omega_increasing k1 k2 Deep H1 C I). lra.
  - subst k2. lra.
Qed.

(* ---------------- first guess ---------------- *)
Lemma guess_pos w d : 0 < w -> depth_ok d -> 0 < guess g w d.
Proof.
  intros Hw Hd. destruct d as [|d]; simpl in *.
  - destruct (Rgt_dec w 0); [|lra]. apply Rdiv_lt_0_compat; auto. apply Rmult_lt_0_compat; auto.
  - destruct (Rgt_dec w (sqrt (g / d))).
    + apply Rdiv_lt_0_compat; auto. apply Rmult_lt_0_compat; auto.
    + apply Rdiv_lt_0_compat; auto. apply sqrt_lt_R0. apply Rmult_lt_0_compat; auto.
Qed.

Lemma sqrt_le_of_sq x w : 0 <= w -> x <= w * w -> sqrt x <= w.
Proof.
  intros Hw Hx. apply Rle_trans with (sqrt (w * w)). apply sqrt_le_1_alt; auto. rewrite sqrt_square; auto; lra.
Qed.

Lemma guess_below_root w d : 0 < w -> depth_ok d -> omega g (guess g w d) d <= w.
Proof.
  intros Hw Hd. destruct d as [|d]; simpl in *.
  - destruct (Rgt_dec w 0); [|lra]. apply sqrt_le_of_sq. lra. right. field. lra.
  - destruct (Rgt_dec w (sqrt (g / d))).
    + apply sqrt_le_of_sq. lra.
      pose proof (tanh_lt_1 (w * w / g * d)).
      assert (E : g * (w * w / g) = w * w) by (field; lra). rewrite E.
      assert (0 < w * w) by (apply Rmult_lt_0_compat; auto).
      apply Rle_trans with (w * w * 1); [apply Rmult_le_compat_l; lra | lra].
    + apply sqrt_le_of_sq. lra.
      set (s := sqrt (g * d)). assert (Hs : 0 < s) by (apply sqrt_lt_R0; apply Rmult_lt_0_compat; auto).
      assert (Ss : s * s = g * d) by (apply sqrt_sqrt; left; apply Rmult_lt_0_compat; auto).
      assert (Hk : 0 < w / s) by (apply Rdiv_lt_0_compat; auto).
      assert (Hkd : 0 <= w / s * d) by (left; apply Rmult_lt_0_compat; auto).
      pose proof (tanh_le_x _ Hkd) as T.
      apply Rle_trans with (g * (w / s) * (w / s * d)).
      * apply Rmult_le_compat_l; auto. left. apply Rmult_lt_0_compat; auto.
      * right. replace (g * (w / s) * (w / s * d)) with (w * w * (g * d) / (s * s)) by (field; lra).
        rewrite Ss. field. split; lra.
Qed.

(* ---------------- Newton step ---------------- *)
Lemma dstep_pos w k d : 0 < w -> 0 < k -> depth_ok d -> 0 < dstep w k d.
Proof.
  intros Hw Hk Hd. assert (H0 : 0 < 1 / 2 * w / k).
  { apply Rdiv_lt_0_compat; auto. lra. }
  destruct d as [|d]; simpl in *; auto.
  destruct (Rgt_dec (k * d) 5); auto.
  assert (Hkd : 0 < k * d) by (apply Rmult_lt_0_compat; auto).
  assert (0 < sinh (2 * (k * d))) by (apply sinh_pos; lra).
  assert (0 < k * d / sinh (2 * (k * d))) by (apply Rdiv_lt_0_compat; auto).
  apply Rdiv_lt_0_compat; auto. apply Rmult_lt_0_compat; lra.
Qed.

Lemma newton_step_positive w k d : 0 < w -> 0 < k -> depth_ok d -> omega g k d <= w ->
  k <= nstep g w d k /\ 0 < nstep g w d k.
Proof.
  intros Hw Hk Hd Hle. pose proof (dstep_pos w k d Hw Hk Hd) as Hp.
  unfold nstep.
  assert (0 <= (w - omega g k d) / dstep w k d).
  { apply Rmult_le_pos. lra. left. apply Rinv_0_lt_compat; auto. }
  replace ((omega g k d - w) / dstep w k d) with (- ((w - omega g k d) / dstep w k d)) by (field; lra).
  lra.
Qed.

(* ---------------- loop exit through the tolerance test ---------------- *)
Definition within (tol : R) (p : pt) (k : R) : Prop :=
  Rabs (omega g k (snd p) - fst p) / fst p < tol.

Lemma allconv_within tol ps ks : length ks = length ps -> allconv g tol ps ks = true ->
  List.Forall2 (within tol) ps ks.
Proof.
  revert ks. induction ps as [|[w d] ps IH]; intros [|k ks] L H; simpl in *; try discriminate; constructor.
  - apply andb_true_iff in H. destruct H as [H _]. unfold conv in H. unfold within. simpl.
    destruct (Rlt_dec (Rabs (omega g k d - w) / w) tol); auto. discriminate.
  - apply IH. lia. apply andb_true_iff in H. tauto.
Qed.

Lemma zipstep_length ps ks : length ks = length ps -> length (zipstep g ps ks) = length ps.
Proof.
  revert ks. induction ps as [|[w d] ps IH]; intros [|k ks] L; simpl in *; try discriminate; auto.
Qed.

Lemma newton_exit_tolerance tol fuel ps ks ks' : length ks = length ps ->
  newton g tol fuel ps ks = (true, ks') -> List.Forall2 (within tol) ps ks'.
Proof.
  revert ks. induction fuel as [|n IH]; intros ks L H; simpl in H. discriminate.
  destruct (allconv g tol ps (zipstep g ps ks)) eqn:E.
  - inversion H; subst. apply allconv_within; auto. apply zipstep_length; auto.
  - apply (IH (zipstep g ps ks)); auto. apply zipstep_length; auto.
Qed.

Lemma kinv_exit_tolerance tol fuel ps ks : kinv_batch g tol fuel ps = (true, ks) ->
  List.Forall2 (within tol) ps ks.
Proof.
  unfold kinv_batch. apply newton_exit_tolerance. unfold guesses. apply map_length.
Qed.

Lemma within_abs tol p k : 0 < fst p -> within tol p k -> Rabs (omega g k (snd p) - fst p) < tol * fst p.
Proof.
  unfold within. intros Hw H. apply Rmult_lt_compat_r with (r := fst p) in H; auto.
  unfold Rdiv in H. rewrite Rmult_assoc, Rinv_l, Rmult_1_r in H by lra. auto.
Qed.

Lemma newton_length tol fuel ps ks : length ks = length ps ->
  length (snd (newton g tol fuel ps ks)) = length ps.
Proof.
  revert ks. induction fuel as [|n IH]; intros ks L; simpl; auto.
  destruct (allconv g tol ps (zipstep g ps ks)); simpl.
  - apply zipstep_length; auto.
  - apply IH. apply zipstep_length; auto.
Qed.

Lemma kinv_length tol fuel ps : length (snd (kinv_batch g tol fuel ps)) = length ps.
Proof. unfold kinv_batch. apply newton_length. unfold guesses. apply map_length. Qed.

(* scalar call, default parameters *)
Lemma kinv_scalar_tolerance w d ks : 0 < w -> kinv g w d = (true, ks) ->
  exists k, ks = [k] /\ Rabs (omega g k d - w) < 1 / 1000 * w.
Proof.
  intros Hw H. apply kinv_exit_tolerance in H. inversion H as [|p k ps' ks' W F]; subst.
  inversion F; subst. exists k. split; auto. apply (within_abs _ (w, d) k Hw W).
Qed.
End Disp.

Lemma omega_derive g k d : 0 < g -> 0 < k -> 0 < d ->
  is_derive (fun k => omega g k (Depth d)) k (n_exact k (Depth d) * phase g k (Depth d)).
Proof.
  intros Hg Hk Hd. unfold omega, n_exact, phase, omega, tanh.
  assert (Hkd : 0 < k * d) by (apply Rmult_lt_0_compat; auto).
  pose proof (cosh_pos (k * d)) as HC. pose proof (sinh_pos _ Hkd) as HS.
  auto_derive.
  - split. lra. split; auto. apply Rmult_lt_0_compat. apply Rmult_lt_0_compat; auto.
    apply Rmult_lt_0_compat; auto. apply Rinv_0_lt_compat; auto.
  - rewrite sinh_2x. pose proof (cosh2_sinh2 (k * d)) as CS.
    change (sinh (k * d) / cosh (k * d)) with (sinh (k * d) * / cosh (k * d)).
    set (S := sinh (k * d)) in *. set (C := cosh (k * d)) in *.
    assert (Hu : 0 < g * k * (S * / C)).
    { apply Rmult_lt_0_compat. apply Rmult_lt_0_compat; auto. apply Rmult_lt_0_compat; auto. apply Rinv_0_lt_compat; auto. }
    pose proof (sqrt_lt_R0 _ Hu) as Hs. pose proof (sqrt_sqrt _ (Rlt_le _ _ Hu)) as Hss.
    set (s := sqrt (g * k * (S * / C))) in *.
    transitivity ((g * S / C + g * k * d * (C * C - S * S) / (C * C)) / (2 * s)).
    { field. split; lra. }
    rewrite CS.
    transitivity ((1 / 2 + k * d / (2 * S * C)) * (s * s) / (k * s)).
    { rewrite Hss. field. repeat split; lra. }
    field. repeat split; lra.
Qed.

Section Disp2.
Variable g : R.
Hypothesis Hg : 0 < g.

(* ---------------- deep water is exact ---------------- *)
Lemma omega_deep_guess w : 0 < w -> omega g (w * w / g) Deep = w.
Proof.
  intros Hw. simpl. replace (g * (w * w / g)) with (w * w) by (field; lra). apply sqrt_square; lra.
Qed.

Lemma nstep_deep_fixed w : 0 < w -> nstep g w Deep (w * w / g) = w * w / g.
Proof.
  intros Hw. unfold nstep. rewrite omega_deep_guess by auto.
  replace (w - w) with 0 by ring. unfold Rdiv at 2. rewrite Rmult_0_l. ring.
Qed.

Definition deep_exact (p : pt) (k : R) : Prop := snd p = Deep -> k = fst p * fst p / g.

Lemma guesses_deep_exact ps : List.Forall (fun p => 0 < fst p) ps -> Forall2 deep_exact ps (guesses g ps).
Proof.
  induction 1 as [|[w d] ps Hw _ IH]; simpl; constructor; auto.
  intros E. simpl in *. subst d. simpl. destruct (Rgt_dec w 0); auto. lra.
Qed.

Lemma zipstep_deep_exact ps ks : List.Forall (fun p => 0 < fst p) ps ->
  Forall2 deep_exact ps ks -> Forall2 deep_exact ps (zipstep g ps ks).
Proof.
  intros Hp H. induction H as [|[w d] k ps ks Hk _ IH]; simpl; constructor.
  - intros E. simpl in *. subst d. rewrite (Hk eq_refl). simpl. inversion Hp; subst. apply nstep_deep_fixed; auto.
  - inversion Hp; subst. auto.
Qed.

Lemma newton_deep_exact tol fuel ps ks : List.Forall (fun p => 0 < fst p) ps ->
  Forall2 deep_exact ps ks -> Forall2 deep_exact ps (snd (newton g tol fuel ps ks)).
Proof.
  intros Hp. revert ks. induction fuel as [|n IH]; intros ks H; simpl; auto.
  destruct (allconv g tol ps (zipstep g ps ks)); simpl.
  - apply zipstep_deep_exact; auto.
  - apply IH. apply zipstep_deep_exact; auto.
Qed.

(* every deep-water element of any batch, whatever the other elements need, is w^2/g exactly *)
Lemma kinv_deep_exact tol fuel ps : List.Forall (fun p => 0 < fst p) ps ->
  Forall2 deep_exact ps (snd (kinv_batch g tol fuel ps)).
Proof.
  intros. unfold kinv_batch. apply newton_deep_exact; auto. apply guesses_deep_exact; auto.
Qed.

Lemma newton_deep_one tol n w : 0 < w -> 0 < tol ->
  newton g tol (S n) [(w, Deep)] [w * w / g] = (true, [w * w / g]).
Proof.
  intros Hw Ht. cbn [newton zipstep allconv]. rewrite nstep_deep_fixed by auto.
  unfold conv. rewrite omega_deep_guess by auto.
  replace (w - w) with 0 by ring. rewrite Rabs_R0. replace (0 / w) with 0 by (unfold Rdiv; ring).
  destruct (Rlt_dec 0 tol); [reflexivity | lra].
Qed.

Lemma kinv_deep_scalar w : 0 < w -> kinv g w Deep = (true, [w * w / g]).
Proof.
  intros Hw. unfold kinv, kinv_batch, guesses. cbn [map fst snd guess].
  destruct (Rgt_dec w 0); [|lra]. apply (newton_deep_one tol_default 9 w Hw). unfold tol_default. lra.
Qed.

(* ---------------- group / phase ratio ---------------- *)
Lemma x_over_sinh2x x : 0 < x -> 0 < x / sinh (2 * x) < 1 / 2.
Proof.
  intros Hx. assert (H2 : 2 * x < sinh (2 * x)) by (apply sinh_gt_x; lra).
  split. apply Rdiv_lt_0_compat; lra.
  apply Rmult_lt_reg_r with (sinh (2 * x)). lra.
  unfold Rdiv. rewrite Rmult_assoc, Rinv_l by lra. lra.
Qed.

Lemma ratio_range k d : 0 < k -> depth_ok d -> 1 / 2 <= n_ratio k d <= 1.
Proof.
  intros Hk Hd. destruct d as [|d]; simpl in *. lra.
  destruct (Rgt_dec (k * d) 5). lra.
  assert (Hkd : 0 < k * d) by (apply Rmult_lt_0_compat; auto).
  pose proof (x_over_sinh2x _ Hkd). lra.
Qed.

Lemma n_exact_range k d : 0 < k -> depth_ok d -> 1 / 2 <= n_exact k d <= 1.
Proof.
  intros Hk Hd. destruct d as [|d]; simpl in *. lra.
  assert (Hkd : 0 < k * d) by (apply Rmult_lt_0_compat; auto).
  pose proof (x_over_sinh2x _ Hkd). lra.
Qed.

(* the kd > 5 shortcut: x / sinh 2x < 5e-4 for x > 5 *)
Lemma shortcut_gap x : 5 < x -> x / sinh (2 * x) < 5 / 10000.
Proof.
  intros Hx.
  pose proof exp10_lb as E10.
  assert (Em : exp (- (2 * x)) < 1).
  { rewrite <- exp_0. apply exp_increasing. lra. }
  assert (Ep : exp 10 * (1 + (2 * x - 10)) <= exp (2 * x)).
  { replace (2 * x) with (10 + (2 * x - 10)) at 2 by ring. rewrite exp_plus.
    apply Rmult_le_compat_l. left; apply exp_pos. left. apply exp_ineq1. lra. }
  assert (Hs : 2000 * x < sinh (2 * x)).
  { unfold sinh.
    assert (20001 * (1 + (2 * x - 10)) <= exp 10 * (1 + (2 * x - 10))) by (apply Rmult_le_compat_r; lra).
    lra. }
  apply Rmult_lt_reg_r with (sinh (2 * x)). lra.
  unfold Rdiv at 1. rewrite Rmult_assoc, Rinv_l by lra. lra.
Qed.
End Disp2.


(* ---------------- group velocity is d omega / dk ---------------- *)
Lemma omega_derive_deep g k : 0 < g -> 0 < k ->
  is_derive (fun k => omega g k Deep) k (n_exact k Deep * phase g k Deep).
Proof.
  intros Hg Hk. unfold omega, n_exact, phase, omega.
  assert (Hu : 0 < g * k) by (apply Rmult_lt_0_compat; auto).
  auto_derive.
  - exact Hu.
  - pose proof (sqrt_lt_R0 _ Hu) as Hs. pose proof (sqrt_sqrt _ (Rlt_le _ _ Hu)) as Hss.
    set (s := sqrt (g * k)) in *.
    transitivity (1 / 2 * (s * s) / (k * s)). rewrite Hss. field. split; lra. field. split; lra.
Qed.

Lemma cg_is_derivative g k d : 0 < g -> 0 < k -> depth_ok d ->
  exists D, is_derive (fun k => omega g k d) k D /\ 0 < D /\
            Rabs (cg g k d - D) <= 1 / 1000 * D /\
            (match d with Deep => True | Depth dd => k * dd <= 5 end -> cg g k d = D).
Proof.
  intros Hg Hk Hd. exists (n_exact k d * phase g k d).
  assert (Hph : 0 < phase g k d).
  { unfold phase. apply Rdiv_lt_0_compat; auto. apply omega_pos; auto. }
  pose proof (n_exact_range k d Hk Hd) as Hn.
  assert (HD : 0 < n_exact k d * phase g k d) by (apply Rmult_lt_0_compat; lra).
  split; [|split; [auto|]].
  - destruct d as [|d]. apply omega_derive_deep; auto. apply omega_derive; auto.
  - unfold cg. destruct d as [|d]; simpl in Hd.
    + simpl n_ratio. simpl n_exact. split; [|auto].
      replace (1 / 2 * phase g k Deep - 1 / 2 * phase g k Deep) with 0 by ring. rewrite Rabs_R0. simpl in HD. lra.
    + simpl n_ratio. simpl n_exact in *. destruct (Rgt_dec (k * d) 5) as [L|L].
      * split; [|intros; lra].
        pose proof (shortcut_gap (k * d) L) as Gp.
        assert (Hkd : 0 < k * d) by lra. pose proof (x_over_sinh2x _ Hkd) as [E0 _].
        set (e := k * d / sinh (2 * (k * d))) in *.
        replace (1 / 2 * phase g k (Depth d) - (1 / 2 + e) * phase g k (Depth d)) with (- (e * phase g k (Depth d))) by ring.
        rewrite Rabs_Ropp, Rabs_right by (apply Rle_ge; apply Rmult_le_pos; lra).
        replace (1 / 1000 * ((1 / 2 + e) * phase g k (Depth d))) with ((1 / 1000 * (1 / 2 + e)) * phase g k (Depth d)) by ring.
        apply Rmult_le_compat_r; lra.
      * split; [|auto].
        replace ((1 / 2 + k * d / sinh (2 * (k * d))) * phase g k (Depth d) - (1 / 2 + k * d / sinh (2 * (k * d))) * phase g k (Depth d)) with 0 by ring.
        rewrite Rabs_R0. lra.
Qed.

(* group / phase ratio of the implemented group velocity *)
Lemma cg_over_phase g k d : 0 < g -> 0 < k -> depth_ok d ->
  1 / 2 <= cg g k d / phase g k d <= 1.
Proof.
  intros Hg Hk Hd. assert (Hph : 0 < phase g k d).
  { unfold phase. apply Rdiv_lt_0_compat; auto. apply omega_pos; auto. }
  unfold cg. replace (n_ratio k d * phase g k d / phase g k d) with (n_ratio k d) by (field; lra).
  apply ratio_range; auto.
Qed.

(* ---------------- where the exact root lies (limits) ---------------- *)
Lemma root_bounds g k w d : 0 < g -> 0 < k -> 0 < d -> 0 < w -> omega g k (Depth d) = w ->
  w * w / g < k /\ w / sqrt (g * d) <= k /\ k <= w * w / (g * tanh (w * w / g * d)).
Proof.
  intros Hg Hk Hd Hw E.
  assert (Hu : 0 < g * k * tanh (k * d)) by (apply omega_arg_pos; auto).
  assert (E2 : g * k * tanh (k * d) = w * w).
  { rewrite <- E. simpl. symmetry. apply sqrt_sqrt. lra. }
  assert (Hkd : 0 < k * d) by (apply Rmult_lt_0_compat; auto).
  pose proof (tanh_lt_1 (k * d)) as T1. pose proof (tanh_pos _ Hkd) as T0.
  assert (Hgk : 0 < g * k) by (apply Rmult_lt_0_compat; auto).
  assert (B1 : w * w / g < k).
  { apply Rmult_lt_reg_r with g; auto. unfold Rdiv. rewrite Rmult_assoc, Rinv_l, Rmult_1_r by lra.
    rewrite <- E2. rewrite (Rmult_comm k g).
    apply Rlt_le_trans with (g * k * 1); [apply Rmult_lt_compat_l; auto | lra]. }
  split; auto. split.
  - assert (Hs : 0 < sqrt (g * d)) by (apply sqrt_lt_R0; apply Rmult_lt_0_compat; auto).
    apply Rmult_le_reg_r with (sqrt (g * d)); auto.
    unfold Rdiv. rewrite Rmult_assoc, Rinv_l, Rmult_1_r by lra.
    rewrite <- (sqrt_square w) by lra. rewrite <- (sqrt_square k) at 1 by lra.
    rewrite <- sqrt_mult_alt by (apply Rmult_le_pos; lra).
    apply sqrt_le_1_alt. rewrite <- E2.
    pose proof (tanh_le_x (k * d) (Rlt_le _ _ Hkd)).
    apply Rle_trans with (g * k * (k * d)). apply Rmult_le_compat_l; lra. right; ring.
  - assert (Hx : 0 < w * w / g * d).
    { apply Rmult_lt_0_compat; auto. apply Rdiv_lt_0_compat; auto. apply Rmult_lt_0_compat; auto. }
    pose proof (tanh_pos _ Hx) as Tx.
    assert (Tm : tanh (w * w / g * d) < tanh (k * d)) by (apply tanh_incr; apply Rmult_lt_compat_r; auto).
    set (T := tanh (w * w / g * d)) in *.
    apply Rmult_le_reg_r with (g * T). apply Rmult_lt_0_compat; auto.
    replace (w * w / (g * T) * (g * T)) with (w * w) by (field; split; lra).
    rewrite <- E2. replace (k * (g * T)) with (g * k * T) by ring.
    apply Rmult_le_compat_l; lra.
Qed.

Section Scale.
Variable g : R.
Hypothesis Hg : 0 < g.

(* dimensionless frequency and wavenumber *)
Definition xnd (w d : R) : R := w * sqrt (d / g).

Lemma sqrt_dg d : 0 < d -> sqrt (d / g) * sqrt (g / d) = 1.
Proof.
  intros Hd. rewrite <- sqrt_mult_alt. replace (d / g * (g / d)) with 1 by (field; lra). apply sqrt_1.
  left. apply Rdiv_lt_0_compat; auto.
Qed.

Lemma omega_scale k d : 0 < d ->
  omega g k (Depth d) = sqrt (g / d) * omega 1 (k * d) (Depth 1).
Proof.
  intros Hd. simpl. rewrite <- sqrt_mult_alt by (left; apply Rdiv_lt_0_compat; auto).
  f_equal. rewrite Rmult_1_r. field. lra.
Qed.

Lemma guess_scale w d : 0 < w -> 0 < d ->
  guess g w (Depth d) * d = guess 1 (xnd w d) (Depth 1).
Proof.
  intros Hw Hd. unfold xnd. simpl.
  pose proof (sqrt_dg d Hd) as E.
  assert (P1 : 0 < sqrt (d / g)) by (apply sqrt_lt_R0; apply Rdiv_lt_0_compat; auto).
  assert (P2 : 0 < sqrt (g / d)) by (apply sqrt_lt_R0; apply Rdiv_lt_0_compat; auto).
  assert (S1 : sqrt (d / g) * sqrt (d / g) = d / g) by (apply sqrt_sqrt; left; apply Rdiv_lt_0_compat; auto).
  replace (1 / 1) with 1 by field. rewrite Rmult_1_r, sqrt_1.
  assert (C : w > sqrt (g / d) <-> w * sqrt (d / g) > 1).
  { split; intros H.
    - apply Rmult_gt_compat_r with (r := sqrt (d / g)) in H; auto. rewrite (Rmult_comm (sqrt (g / d))) in H. lra.
    - apply Rmult_gt_compat_r with (r := sqrt (g / d)) in H; auto. rewrite Rmult_assoc, E in H. lra. }
  destruct (Rgt_dec w (sqrt (g / d))) as [A|A]; destruct (Rgt_dec (w * sqrt (d / g)) 1) as [B|B]; try tauto.
  - replace (w * sqrt (d / g) * (w * sqrt (d / g)) / 1) with (w * w * (sqrt (d / g) * sqrt (d / g))) by field.
    rewrite S1. field. lra.
  - (* w / sqrt (g d) * d = w sqrt(d/g) *)
    assert (Sgd : sqrt (g * d) = g * sqrt (d / g)).
    { replace (g * d) with (g * g * (d / g)) by (field; lra).
      rewrite sqrt_mult_alt by (left; apply Rmult_lt_0_compat; auto). rewrite sqrt_square; lra. }
    rewrite Sgd. unfold Rdiv at 3. rewrite Rinv_1, Rmult_1_r.
    replace (w / (g * sqrt (d / g)) * d) with (w * (d / g) / sqrt (d / g)) by (field; split; lra).
    rewrite <- S1 at 1. field. lra.
Qed.

Lemma dstep_scale w k d : 0 < w -> 0 < d -> k <> 0 ->
  dstep w k (Depth d) = sqrt (g / d) * d * dstep (xnd w d) (k * d) (Depth 1).
Proof.
  intros Hw Hd Hk. unfold xnd. simpl. rewrite !Rmult_1_r.
  pose proof (sqrt_dg d Hd) as E.
  assert (P1 : 0 < sqrt (d / g)) by (apply sqrt_lt_R0; apply Rdiv_lt_0_compat; auto).
  set (a := sqrt (d / g)) in *. set (c := sqrt (g / d)) in *.
  assert (X : w / k = c * d * (w * a / (k * d))).
  { replace (c * d * (w * a / (k * d))) with ((a * c) * (w / k)) by (field; split; lra). rewrite E. ring. }
  destruct (Rgt_dec (k * d) 5).
  - unfold Rdiv at 1. unfold Rdiv in X. rewrite Rmult_assoc, X. field. split; lra.
  - set (N := 1 / 2 + k * d / sinh (2 * (k * d))).
    unfold Rdiv at 1. unfold Rdiv in X. rewrite Rmult_assoc, X. field. split; lra.
Qed.

Lemma w_scale w d : 0 < d -> w = sqrt (g / d) * xnd w d.
Proof.
  intros Hd. unfold xnd. pose proof (sqrt_dg d Hd) as E.
  replace (sqrt (g / d) * (w * sqrt (d / g))) with (w * (sqrt (d / g) * sqrt (g / d))) by ring.
  rewrite E. ring.
Qed.

Lemma nstep_scale w k d : 0 < w -> 0 < d ->
  nstep g w (Depth d) k * d = nstep 1 (xnd w d) (Depth 1) (k * d).
Proof.
  intros Hw Hd. destruct (Req_dec k 0) as [K|K].
  - subst k. unfold nstep.
    assert (Z1 : dstep w 0 (Depth d) = 0).
    { simpl. destruct (Rgt_dec (0 * d) 5); unfold Rdiv; rewrite Rinv_0; ring. }
    assert (Z2 : dstep (xnd w d) (0 * d) (Depth 1) = 0).
    { replace (0 * d) with 0 by ring. simpl. destruct (Rgt_dec (0 * 1) 5); unfold Rdiv; rewrite Rinv_0; ring. }
    rewrite Z1, Z2. unfold Rdiv. rewrite Rinv_0. ring.
  - unfold nstep. rewrite (omega_scale k d Hd), (dstep_scale w k d Hw Hd K).
    set (D := dstep (xnd w d) (k * d) (Depth 1)).
    set (O := omega 1 (k * d) (Depth 1)).
    assert (P2 : 0 < sqrt (g / d)) by (apply sqrt_lt_R0; apply Rdiv_lt_0_compat; auto).
    destruct (Req_dec D 0) as [Z|Z].
    + rewrite Z, Rmult_0_r. unfold Rdiv. rewrite Rinv_0. ring.
    + rewrite (w_scale w d Hd) at 1. set (c := sqrt (g / d)) in *. field. repeat split; lra.
Qed.

Lemma conv_scale tol w k d : 0 < w -> 0 < d ->
  conv g tol w (Depth d) k = conv 1 tol (xnd w d) (Depth 1) (k * d).
Proof.
  intros Hw Hd. unfold conv. rewrite (omega_scale k d Hd).
  assert (P2 : 0 < sqrt (g / d)) by (apply sqrt_lt_R0; apply Rdiv_lt_0_compat; auto).
  assert (P1 : 0 < sqrt (d / g)) by (apply sqrt_lt_R0; apply Rdiv_lt_0_compat; auto).
  assert (Px : 0 < xnd w d) by (unfold xnd; apply Rmult_lt_0_compat; auto).
  set (O := omega 1 (k * d) (Depth 1)).
  assert (E : Rabs (sqrt (g / d) * O - w) / w = Rabs (O - xnd w d) / xnd w d).
  { rewrite (w_scale w d Hd) at 1 2. set (c := sqrt (g / d)) in *.
    replace (c * O - c * xnd w d) with (c * (O - xnd w d)) by ring.
    rewrite Rabs_mult, (Rabs_right c) by lra. field. split; lra. }
  rewrite E. reflexivity.
Qed.

(* the batch: every element has a finite positive depth and positive frequency *)
Definition finite_pt (p : pt) : Prop := 0 < fst p /\ exists d, snd p = Depth d /\ 0 < d.
Definition depth_of (p : pt) : R := match snd p with Deep => 1 | Depth d => d end.
Definition nd_pt (p : pt) : pt := (xnd (fst p) (depth_of p), Depth 1).
Definition nd_ks (ps : list pt) (ks : list R) : list R := map2 (fun p k => k * depth_of p) ps ks.

Lemma zipstep_scale ps ks : List.Forall finite_pt ps ->
  nd_ks ps (zipstep g ps ks) = zipstep 1 (map nd_pt ps) (nd_ks ps ks).
Proof.
  intros H. revert ks. induction H as [|[w dd] ps [Hw [d [E Hd]]] _ IH]; intros [|k ks]; simpl; auto.
  simpl in *. subst dd. unfold nd_ks in *. cbn [map2 depth_of snd fst nd_pt zipstep]. unfold depth_of. cbn [snd].
  f_equal. apply nstep_scale; auto. apply IH.
Qed.

Lemma allconv_scale tol ps ks : List.Forall finite_pt ps ->
  allconv g tol ps ks = allconv 1 tol (map nd_pt ps) (nd_ks ps ks).
Proof.
  intros H. revert ks. induction H as [|[w dd] ps [Hw [d [E Hd]]] _ IH]; intros [|k ks]; simpl; auto.
  simpl in *. subst dd. unfold nd_ks in *. cbn [map2 depth_of snd fst nd_pt allconv]. unfold depth_of. cbn [snd].
  f_equal. apply conv_scale; auto. apply IH.
Qed.

Lemma newton_scale tol fuel ps ks : List.Forall finite_pt ps ->
  newton 1 tol fuel (map nd_pt ps) (nd_ks ps ks)
  = (fst (newton g tol fuel ps ks), nd_ks ps (snd (newton g tol fuel ps ks))).
Proof.
  intros H. revert ks. induction fuel as [|n IH]; intros ks; simpl; auto.
  rewrite <- zipstep_scale, <- allconv_scale by auto.
  destruct (allconv g tol ps (zipstep g ps ks)); simpl; auto.
Qed.

Lemma guesses_scale ps : List.Forall finite_pt ps ->
  nd_ks ps (guesses g ps) = guesses 1 (map nd_pt ps).
Proof.
  induction 1 as [|[w dd] ps [Hw [d [E Hd]]] _ IH]; simpl; auto.
  simpl in *. subst dd. unfold nd_ks in *. cbn [map2]. unfold depth_of. cbn [snd fst].
  f_equal. apply guess_scale; auto. apply IH.
Qed.

(* the two-parameter solver collapses to the one-parameter dimensionless solver *)
Lemma scale_invariance tol fuel ps : List.Forall finite_pt ps ->
  kinv_batch 1 tol fuel (map nd_pt ps)
  = (fst (kinv_batch g tol fuel ps), nd_ks ps (snd (kinv_batch g tol fuel ps))).
Proof.
  intros H. unfold kinv_batch. rewrite <- guesses_scale by auto. apply newton_scale; auto.
Qed.
End Scale.
