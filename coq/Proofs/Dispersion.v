From Coq Require Import Reals List Bool Lra.
From OSU.Model Require Import Dispersion.
Import ListNotations.
Open Scope R_scope.
