(* Proofs about Model/Interp.v (C13). *)
From Coq Require Import Reals ZArith List Arith Lia Lra.
From OSU.Lib Require Import InterpAuxDefs InterpAux.
From OSU.Model Require Import Interp.
Import ListNotations.
Open Scope R_scope.

(* ------------------------------------------------------------------ *)
(* grids                                                                *)
(* ------------------------------------------------------------------ *)

(* sorted (non strict) and strictly sorted, stated on indices *)
Definition asc (xp : list R) : Prop :=
  forall i j, (i <= j < length xp)%nat -> rnth xp i <= rnth xp j.
Definition sasc (xp : list R) : Prop :=
  forall i j, (i < j < length xp)%nat -> rnth xp i < rnth xp j.
Definition sdesc (xp : list R) : Prop :=
  forall i j, (i < j < length xp)%nat -> rnth xp j < rnth xp i.

Lemma sasc_asc : forall xp, sasc xp -> asc xp.
Proof.
  intros xp H i j [Hij Hj]. destruct (Nat.eq_dec i j) as [->|Hne]; [lra|].
  apply Rlt_le, H; lia.
Qed.

Lemma hd0_rnth : forall xp, hd0 xp = rnth xp 0.
Proof. intros [|a l]; reflexivity. Qed.

Lemma last0_rnth : forall xp, last0 xp = rnth xp (length xp - 1).
Proof.
  unfold last0, rnth. induction xp as [|a l IH]; [reflexivity|].
  destruct l as [|b l']; [reflexivity|].
  change (last (a :: b :: l') 0) with (last (b :: l') 0). rewrite IH.
  cbn [length]. replace (S (S (length l')) - 1)%nat with (S (length l')) by lia.
  replace (S (length l') - 1)%nat with (length l') by lia. reflexivity.
Qed.

Lemma asc_not_descending : forall xp, asc xp -> descending xp = false.
Proof.
  intros xp H. unfold descending. destruct (Rlt_dec (last0 xp) (hd0 xp)) as [Hlt|]; [|reflexivity].
  exfalso. rewrite hd0_rnth, last0_rnth in Hlt.
  destruct xp as [|a l]; [cbn in Hlt; lra|].
  assert (rnth (a :: l) 0 <= rnth (a :: l) (length (a :: l) - 1)) by (apply H; cbn [length]; lia).
  lra.
Qed.

Lemma asc_flipx : forall xp x, asc xp -> flipx xp x = x.
Proof. intros. unfold flipx. rewrite asc_not_descending; auto. Qed.
Lemma asc_flipxp : forall xp, asc xp -> flipxp xp = xp.
Proof. intros. unfold flipxp. rewrite asc_not_descending; auto. Qed.

(* ------------------------------------------------------------------ *)
(* searchsorted(side="right")                                           *)
(* ------------------------------------------------------------------ *)

Lemma ssr_cons : forall a l x, ssr (a :: l) x = ((if Rle_dec a x then 1 else 0) + ssr l x)%nat.
Proof.
  intros. unfold ssr. cbn [filter]. unfold leb_R at 1. destruct (Rle_dec a x); reflexivity.
Qed.

Lemma ssr_le_length : forall xp x, (ssr xp x <= length xp)%nat.
Proof.
  induction xp as [|a l IH]; intros x; [cbn; lia|].
  rewrite ssr_cons. cbn [length]. specialize (IH x). destruct (Rle_dec a x); lia.
Qed.

(* the value of searchsorted-right is characterised by the bracketing property (any vector) *)
Lemma ssr_count : forall xp x k, (k <= length xp)%nat ->
  (forall i, (i < k)%nat -> rnth xp i <= x) ->
  (forall i, (k <= i < length xp)%nat -> x < rnth xp i) ->
  ssr xp x = k.
Proof.
  induction xp as [|a l IH]; intros x k Hk Hlo Hhi.
  - cbn in Hk. cbn. lia.
  - rewrite ssr_cons. destruct k as [|k'].
    + assert (Ha : x < a) by (apply (Hhi 0%nat); cbn [length]; lia).
      destruct (Rle_dec a x); [lra|].
      rewrite (IH x 0%nat); [reflexivity|lia| |].
      * intros i Hi; lia.
      * intros i Hi. apply (Hhi (S i)). cbn [length]; lia.
    + assert (Ha : a <= x) by (apply (Hlo 0%nat); lia).
      destruct (Rle_dec a x); [|lra].
      rewrite (IH x k'); [reflexivity| cbn [length] in Hk; lia | |].
      * intros i Hi. apply (Hlo (S i)). lia.
      * intros i Hi. apply (Hhi (S i)). cbn [length]; lia.
Qed.

Lemma asc_tail : forall a l, asc (a :: l) -> asc l.
Proof.
  intros a l H i j Hij. apply (H (S i) (S j)). cbn [length]; lia.
Qed.

(* on a sorted vector searchsorted-right returns the index k with xp[k-1] <= x < xp[k] *)
Lemma ssr_spec : forall xp x, asc xp ->
  (forall i, (i < ssr xp x)%nat -> rnth xp i <= x) /\
  (forall i, (ssr xp x <= i < length xp)%nat -> x < rnth xp i).
Proof.
  induction xp as [|a l IH]; intros x Hasc.
  - split; intros i Hi; cbn in Hi; lia.
  - destruct (IH x (asc_tail _ _ Hasc)) as [IH1 IH2].
    rewrite ssr_cons. destruct (Rle_dec a x) as [Hax|Hax].
    + split; intros i Hi.
      * destruct i as [|i']; [exact Hax|]. apply (IH1 i'). lia.
      * destruct i as [|i']; [lia|]. apply (IH2 i'). cbn [length] in Hi. lia.
    + assert (Hall : forall i, (i < length (a :: l))%nat -> x < rnth (a :: l) i).
      { intros i Hi. assert (rnth (a :: l) 0 <= rnth (a :: l) i) by (apply Hasc; lia).
        change (rnth (a :: l) 0) with a in H. lra. }
      assert (Hz : ssr l x = 0%nat).
      { apply ssr_count; [lia| intros i Hi; lia |].
        intros i Hi. apply (Hall (S i)). cbn [length]. lia. }
      rewrite Hz. split; intros i Hi; [lia|]. apply Hall. lia.
Qed.

(* existence of the bracket for a target inside a strictly sorted grid *)
Lemma bracket_exists : forall xp x, sasc xp -> (2 <= length xp)%nat ->
  hd0 xp <= x < last0 xp ->
  exists i, (i + 1 < length xp)%nat /\ rnth xp i <= x < rnth xp (i + 1).
Proof.
  intros xp x Hs Hn [Hlo Hhi].
  destruct (ssr_spec xp x (sasc_asc _ Hs)) as [H1 H2].
  pose proof (ssr_le_length xp x) as Hle.
  rewrite hd0_rnth in Hlo. rewrite last0_rnth in Hhi.
  remember (ssr xp x) as k.
  destruct k as [|k'].
  - exfalso. assert (x < rnth xp 0) by (apply H2; lia). lra.
  - assert (Hk : (S k' < length xp)%nat).
    { destruct (Nat.eq_dec (S k') (length xp)) as [He|]; [|lia].
      exfalso. assert (rnth xp (length xp - 1) <= x) by (apply H1; lia). lra. }
    exists k'. replace (k' + 1)%nat with (S k') by lia. split; [lia|]. split.
    + apply H1; lia.
    + apply H2; lia.
Qed.

(* ------------------------------------------------------------------ *)
(* enclosing / frac on ascending grids, non periodic                    *)
(* ------------------------------------------------------------------ *)

Lemma asc_le_last : forall xp i, asc xp -> (i < length xp)%nat -> rnth xp i <= last0 xp.
Proof. intros xp i H Hi. rewrite last0_rnth. apply H. lia. Qed.

Lemma asc_hd_le : forall xp i, asc xp -> (i < length xp)%nat -> hd0 xp <= rnth xp i.
Proof. intros xp i H Hi. rewrite hd0_rnth. apply H. lia. Qed.

Lemma ssr_between : forall xp x i, asc xp -> (i + 1 < length xp)%nat ->
  rnth xp i <= x < rnth xp (i + 1) -> ssr xp x = (i + 1)%nat.
Proof.
  intros xp x i Ha Hi [Hlo Hhi]. apply ssr_count; [lia| |].
  - intros j Hj. assert (rnth xp j <= rnth xp i) by (apply Ha; lia). lra.
  - intros j Hj. assert (rnth xp (i + 1) <= rnth xp j) by (apply Ha; lia). lra.
Qed.

Lemma enclosing_between : forall xp x i, asc xp -> (i + 1 < length xp)%nat ->
  rnth xp i <= x < rnth xp (i + 1) -> enclosing xp x None = (i, (i + 1)%nat).
Proof.
  intros xp x i Ha Hi Hx. unfold enclosing.
  rewrite asc_flipx, asc_flipxp by assumption.
  rewrite (ssr_between xp x i Ha Hi Hx).
  replace (Nat.eqb (i + 1) 0) with false by (symmetry; apply Nat.eqb_neq; lia).
  f_equal; lia.
Qed.

Lemma frac_between : forall xp x i el er, asc xp -> (i + 1 < length xp)%nat ->
  rnth xp i <= x < rnth xp (i + 1) ->
  frac xp x (i, (i + 1)%nat) None el er
  = Some ((x - rnth xp i) / (rnth xp (i + 1) - rnth xp i)).
Proof.
  intros xp x i el er Ha Hi [Hlo Hhi]. unfold frac.
  rewrite asc_flipx, asc_flipxp by assumption. cbn [wd fst snd].
  pose proof (asc_le_last xp (i + 1) Ha ltac:(lia)) as Hl.
  pose proof (asc_hd_le xp i Ha ltac:(lia)) as Hh.
  destruct (Req_EM_T x (last0 xp)); [lra|].
  destruct (Rgt_dec x (last0 xp)); [lra|].
  destruct (Rlt_dec x (hd0 xp)); [lra|].
  destruct (Req_EM_T (rnth xp (i + 1) - rnth xp i) 0); [lra|]. reflexivity.
Qed.

Lemma enclosing_last : forall xp x, asc xp -> (1 <= length xp)%nat -> x = last0 xp ->
  enclosing xp x None = ((length xp - 1)%nat, (length xp - 1)%nat).
Proof.
  intros xp x Ha Hn Hx. unfold enclosing.
  rewrite asc_flipx, asc_flipxp by assumption.
  assert (Hs : ssr xp x = length xp).
  { apply ssr_count; [lia| |intros j Hj; lia].
    intros j Hj. subst x. apply asc_le_last; assumption. }
  rewrite Hs.
  replace (Nat.eqb (length xp) 0) with false by (symmetry; apply Nat.eqb_neq; lia).
  f_equal; lia.
Qed.

Lemma frac_last : forall xp x ii el er, asc xp -> x = last0 xp ->
  frac xp x ii None el er = Some 0.
Proof.
  intros xp x ii el er Ha Hx. unfold frac.
  rewrite asc_flipx, asc_flipxp by assumption. cbn [wd].
  destruct (Req_EM_T x (last0 xp)); [reflexivity|contradiction].
Qed.

(* no extrapolation: NdInterpolator passes extrapolate_left = extrapolate_right = False *)
Lemma frac_outside : forall xp x ii, asc xp -> (1 <= length xp)%nat ->
  x < hd0 xp \/ last0 xp < x -> frac xp x ii None false false = None.
Proof.
  intros xp x ii Ha Hn Hx. unfold frac.
  rewrite asc_flipx, asc_flipxp by assumption. cbn [wd].
  assert (hd0 xp <= last0 xp) by (rewrite hd0_rnth; apply asc_le_last; [assumption|lia]).
  destruct (Req_EM_T x (last0 xp)); [lra|].
  destruct (Rgt_dec x (last0 xp)); [reflexivity|].
  destruct (Rlt_dec x (hd0 xp)); [reflexivity|]. lra.
Qed.

(* ------------------------------------------------------------------ *)
(* the corner engine                                                    *)
(* ------------------------------------------------------------------ *)

Lemma nth_map_seq : forall (A : Type) (f : nat -> A) (d : A) np s j, (j < np)%nat ->
  nth j (map f (seq s np)) d = f (s + j)%nat.
Proof.
  intros A f d np. induction np as [|n IH]; intros s j Hj; [lia|].
  cbn [seq map]. destruct j as [|j'].
  - cbn. f_equal. lia.
  - cbn [nth]. rewrite IH by lia. f_equal. lia.
Qed.

Lemma interp_corners_nth : forall cs np j, (j < np)%nat ->
  nth j (interp_corners cs np) None
  = if Rgt_dec (wsum cs) (1 / 2) then Some (vsum cs j / wsum cs) else None.
Proof.
  intros cs np j Hj. unfold interp_corners. rewrite nth_map_seq by exact Hj. reflexivity.
Qed.

Lemma interp_corners_length : forall cs np, length (interp_corners cs np) = np.
Proof. intros. unfold interp_corners. rewrite map_length, seq_length. reflexivity. Qed.

Lemma interp_corners_none : forall cs np, ~ wsum cs > 1 / 2 ->
  interp_corners cs np = repeat None np.
Proof.
  intros cs np H. unfold interp_corners.
  destruct (Rgt_dec (wsum cs) (1 / 2)); [contradiction|].
  generalize 0%nat. induction np as [|m IH]; intros s; [reflexivity|].
  cbn [seq map repeat]. f_equal. apply IH.
Qed.

(* two corners, written out *)
Lemma wsum2 : forall c0 c1,
  wsum [c0; c1] = (if cmask c0 then oval (cw c0) else 0) + (if cmask c1 then oval (cw c1) else 0).
Proof. intros. unfold wsum. cbn [fold_left]. destruct (cmask c0), (cmask c1); ring. Qed.

Lemma vsum2 : forall c0 c1 j,
  vsum [c0; c1] j = (if cmask c0 then oval (cw c0) * oget (cvals c0) j else 0)
                  + (if cmask c1 then oval (cw c1) * oget (cvals c1) j else 0).
Proof. intros. unfold vsum. cbn [fold_left]. destruct (cmask c0), (cmask c1); ring. Qed.

Lemma cmask_some : forall w r, cmask (mkc (Some w) r) = if Rgt_dec w 0 then all_some r else false.
Proof. reflexivity. Qed.
Lemma cmask_none : forall r, cmask (mkc None r) = false.
Proof. reflexivity. Qed.

(* weights_sum and the value sum do not depend on the order of the corners *)
Lemma interp_corners_swap : forall c0 c1 np, interp_corners [c0; c1] np = interp_corners [c1; c0] np.
Proof.
  intros. unfold interp_corners. rewrite (wsum2 c0 c1), (wsum2 c1 c0).
  rewrite (Rplus_comm (if cmask c0 then oval (cw c0) else 0)).
  apply map_ext. intros j. rewrite (vsum2 c0 c1), (vsum2 c1 c0).
  rewrite (Rplus_comm (if cmask c0 then oval (cw c0) * oget (cvals c0) j else 0)). reflexivity.
Qed.

(* ------------------------------------------------------------------ *)
(* one axis, linear mode                                                *)
(* ------------------------------------------------------------------ *)

Definition tfrac (xp : list R) (x : R) (i : nat) : R :=
  (x - rnth xp i) / (rnth xp (i + 1) - rnth xp i).

Lemma tfrac_bounds : forall xp x i, rnth xp i <= x < rnth xp (i + 1) -> 0 <= tfrac xp x i < 1.
Proof. intros xp x i H. unfold tfrac. apply div_bounds. lra. Qed.

Lemma axis_corners_between : forall xp rows x i, asc xp -> (i + 1 < length xp)%nat ->
  rnth xp i <= x < rnth xp (i + 1) ->
  axis_corners xp rows x None false
  = [ mkc (Some (1 - tfrac xp x i)) (nth i rows []); mkc (Some (tfrac xp x i)) (nth (i + 1) rows []) ].
Proof.
  intros xp rows x i Ha Hi Hx. unfold axis_corners, frac_n.
  rewrite (enclosing_between xp x i Ha Hi Hx). cbn [fst snd].
  rewrite (frac_between xp x i false false Ha Hi Hx). reflexivity.
Qed.

Lemma convex_between : forall t a b, 0 <= t <= 1 ->
  Rmin a b <= (1 - t) * a + t * b <= Rmax a b.
Proof.
  intros t a b Ht. unfold Rmin, Rmax. destruct (Rle_dec a b) as [Hab|Hab].
  - assert (0 <= t * (b - a)) by (apply Rmult_le_pos; lra).
    assert (0 <= (1 - t) * (b - a)) by (apply Rmult_le_pos; lra). lra.
  - assert (0 <= t * (a - b)) by (apply Rmult_le_pos; lra).
    assert (0 <= (1 - t) * (a - b)) by (apply Rmult_le_pos; lra). lra.
Qed.

(* value of two corners with weights (1-t, t), 0 <= t < 1, both nodes present *)
Lemma two_corners_valid : forall t r0 r1 np j, 0 <= t < 1 ->
  all_some r0 = true -> all_some r1 = true -> (j < np)%nat ->
  nth j (interp_corners [mkc (Some (1 - t)) r0; mkc (Some t) r1] np) None
  = Some ((1 - t) * oget r0 j + t * oget r1 j).
Proof.
  intros t r0 r1 np j Ht H0 H1 Hj.
  rewrite interp_corners_nth by exact Hj. rewrite wsum2, vsum2, !cmask_some, H0, H1. cbn [cw cvals oval].
  destruct (Rgt_dec (1 - t) 0); [|lra].
  destruct (Rgt_dec t 0) as [Hp|Hp].
  - replace (1 - t + t) with 1 by ring.
    destruct (Rgt_dec 1 (1 / 2)); [|lra]. f_equal. field.
  - assert (t = 0) by lra. subst t.
    replace (1 - 0 + 0) with 1 by ring.
    destruct (Rgt_dec 1 (1 / 2)); [|lra]. f_equal. field.
Qed.

(* NaN rule: the second node is missing *)
Lemma two_corners_right_missing : forall t r0 r1 np j, 0 < t < 1 ->
  all_some r0 = true -> all_some r1 = false -> (j < np)%nat ->
  nth j (interp_corners [mkc (Some (1 - t)) r0; mkc (Some t) r1] np) None
  = if Rgt_dec (1 - t) (1 / 2) then Some (oget r0 j) else None.
Proof.
  intros t r0 r1 np j Ht H0 H1 Hj.
  rewrite interp_corners_nth by exact Hj. rewrite wsum2, vsum2, !cmask_some, H0, H1. cbn [cw cvals oval].
  destruct (Rgt_dec (1 - t) 0); [|lra].
  destruct (Rgt_dec t 0); rewrite !Rplus_0_r;
    (destruct (Rgt_dec (1 - t) (1 / 2)); [f_equal; field; lra|reflexivity]).
Qed.

Lemma two_corners_left_missing : forall t r0 r1 np j, 0 < t < 1 ->
  all_some r0 = false -> all_some r1 = true -> (j < np)%nat ->
  nth j (interp_corners [mkc (Some (1 - t)) r0; mkc (Some t) r1] np) None
  = if Rgt_dec t (1 / 2) then Some (oget r1 j) else None.
Proof.
  intros t r0 r1 np j Ht H0 H1 Hj.
  rewrite interp_corners_nth by exact Hj. rewrite wsum2, vsum2, !cmask_some, H0, H1. cbn [cw cvals oval].
  destruct (Rgt_dec t 0); [|lra].
  destruct (Rgt_dec (1 - t) 0); rewrite !Rplus_0_l;
    (destruct (Rgt_dec t (1 / 2)); [f_equal; field; lra|reflexivity]).
Qed.

Lemma two_corners_both_missing : forall w0 w1 r0 r1 np,
  all_some r0 = false -> all_some r1 = false ->
  interp_corners [mkc w0 r0; mkc w1 r1] np = repeat None np.
Proof.
  intros w0 w1 r0 r1 np H0 H1. apply interp_corners_none.
  rewrite wsum2. unfold cmask. cbn [cw cvals]. rewrite H0, H1.
  destruct w0 as [a|]; destruct w1 as [b|]; try destruct (Rgt_dec a 0); try destruct (Rgt_dec b 0); lra.
Qed.

(* a corner with weight exactly one and a second one with weight zero: the node value,
   whatever the data at the second node *)
Lemma two_corners_node : forall r0 r1 np j, all_some r0 = true -> (j < np)%nat ->
  nth j (interp_corners [mkc (Some (1 - 0)) r0; mkc (Some 0) r1] np) None = Some (oget r0 j).
Proof.
  intros r0 r1 np j H0 Hj.
  rewrite interp_corners_nth by exact Hj. rewrite wsum2, vsum2, !cmask_some, H0. cbn [cw cvals oval].
  destruct (Rgt_dec (1 - 0) 0); [|lra]. destruct (Rgt_dec 0 0); [lra|].
  rewrite !Rplus_0_r. destruct (Rgt_dec (1 - 0) (1 / 2)); [|lra]. f_equal. field.
Qed.

Lemma two_corners_node_missing : forall r0 r1 np, all_some r0 = false ->
  interp_corners [mkc (Some (1 - 0)) r0; mkc (Some 0) r1] np = repeat None np.
Proof.
  intros r0 r1 np H0. apply interp_corners_none.
  rewrite wsum2, !cmask_some, H0.
  destruct (Rgt_dec (1 - 0) 0); destruct (Rgt_dec 0 0); lra.
Qed.

(* ---- between two nodes ---- *)
Lemma interp_between : forall xp rows x i np j,
  asc xp -> (i + 1 < length xp)%nat -> rnth xp i <= x < rnth xp (i + 1) ->
  all_some (nth i rows []) = true -> all_some (nth (i + 1) rows []) = true -> (j < np)%nat ->
  let t := (x - rnth xp i) / (rnth xp (i + 1) - rnth xp i) in
  let f0 := oget (nth i rows []) j in
  let f1 := oget (nth (i + 1) rows []) j in
  0 <= t < 1 /\
  nth j (interp_axis1 xp rows x None false np) None = Some ((1 - t) * f0 + t * f1) /\
  Rmin f0 f1 <= (1 - t) * f0 + t * f1 <= Rmax f0 f1.
Proof.
  intros xp rows x i np j Ha Hi Hx H0 H1 Hj t f0 f1.
  pose proof (tfrac_bounds xp x i Hx) as Ht. fold t in Ht. unfold tfrac in Ht. fold t in Ht.
  split; [exact Ht|]. split.
  - unfold interp_axis1. rewrite (axis_corners_between xp rows x i Ha Hi Hx).
    unfold tfrac. fold t. apply two_corners_valid; assumption.
  - apply convex_between. lra.
Qed.

(* ---- at a node (any node, also the last one), whatever the neighbours hold ---- *)
Lemma axis_corners_node : forall xp rows k, sasc xp -> (k < length xp)%nat ->
  exists r1, axis_corners xp rows (rnth xp k) None false
             = [mkc (Some (1 - 0)) (nth k rows []); mkc (Some 0) r1].
Proof.
  intros xp rows k Hs Hk. pose proof (sasc_asc _ Hs) as Ha.
  destruct (Nat.eq_dec (k + 1) (length xp)) as [Hlast|Hnl].
  - (* last node *)
    assert (Hx : rnth xp k = last0 xp) by (rewrite last0_rnth; f_equal; lia).
    exists (nth k rows []). unfold axis_corners, frac_n.
    rewrite (enclosing_last xp _ Ha ltac:(lia) Hx). cbn [fst snd].
    rewrite (frac_last xp _ _ false false Ha Hx).
    replace (length xp - 1)%nat with k by lia. reflexivity.
  - assert (Hi : (k + 1 < length xp)%nat) by lia.
    assert (Hx : rnth xp k <= rnth xp k < rnth xp (k + 1)) by (split; [lra|apply Hs; lia]).
    exists (nth (k + 1) rows []). rewrite (axis_corners_between xp rows _ k Ha Hi Hx).
    unfold tfrac. replace (rnth xp k - rnth xp k) with 0 by ring.
    replace (0 / (rnth xp (k + 1) - rnth xp k)) with 0 by (unfold Rdiv; ring). reflexivity.
Qed.

Lemma interp_node : forall xp rows k np j, sasc xp -> (k < length xp)%nat ->
  all_some (nth k rows []) = true -> (j < np)%nat ->
  nth j (interp_axis1 xp rows (rnth xp k) None false np) None = Some (oget (nth k rows []) j).
Proof.
  intros xp rows k np j Hs Hk Hv Hj. unfold interp_axis1.
  destruct (axis_corners_node xp rows k Hs Hk) as [r1 E]. rewrite E.
  apply two_corners_node; assumption.
Qed.

Lemma interp_node_missing : forall xp rows k np, sasc xp -> (k < length xp)%nat ->
  all_some (nth k rows []) = false ->
  interp_axis1 xp rows (rnth xp k) None false np = repeat None np.
Proof.
  intros xp rows k np Hs Hk Hv. unfold interp_axis1.
  destruct (axis_corners_node xp rows k Hs Hk) as [r1 E]. rewrite E.
  apply two_corners_node_missing; assumption.
Qed.

(* ---- outside the grid: missing, in both modes ---- *)
Lemma interp_outside_none : forall xp rows x nearest np, asc xp -> (1 <= length xp)%nat ->
  x < hd0 xp \/ last0 xp < x ->
  interp_axis1 xp rows x None nearest np = repeat None np.
Proof.
  intros xp rows x nearest np Ha Hn Hx. unfold interp_axis1, axis_corners, frac_n.
  rewrite (frac_outside xp x _ Ha Hn Hx).
  apply interp_corners_none. rewrite wsum2.
  destruct nearest; cbn [option_map w_lo w_hi osub]; rewrite !cmask_none; lra.
Qed.

(* ---- NaN rule ---- *)
Lemma interp_nan_rule : forall xp rows x i np j,
  asc xp -> (i + 1 < length xp)%nat -> rnth xp i < x < rnth xp (i + 1) -> (j < np)%nat ->
  let t := (x - rnth xp i) / (rnth xp (i + 1) - rnth xp i) in
  let r0 := nth i rows [] in
  let r1 := nth (i + 1) rows [] in
  0 < t < 1 /\
  (all_some r0 = true -> all_some r1 = false ->
   nth j (interp_axis1 xp rows x None false np) None
   = if Rgt_dec (1 - t) (1 / 2) then Some (oget r0 j) else None) /\
  (all_some r0 = false -> all_some r1 = true ->
   nth j (interp_axis1 xp rows x None false np) None
   = if Rgt_dec t (1 / 2) then Some (oget r1 j) else None) /\
  (all_some r0 = false -> all_some r1 = false ->
   nth j (interp_axis1 xp rows x None false np) None = None).
Proof.
  intros xp rows x i np j Ha Hi Hx Hj t r0 r1.
  assert (Hx' : rnth xp i <= x < rnth xp (i + 1)) by lra.
  assert (Ht : 0 < t < 1).
  { pose proof (tfrac_bounds xp x i Hx') as [_ Hb]. unfold tfrac in Hb. fold t in Hb.
    split; [|exact Hb]. unfold t. apply div_pos_lt; lra. }
  split; [exact Ht|].
  unfold interp_axis1. rewrite (axis_corners_between xp rows x i Ha Hi Hx').
  unfold tfrac. fold t r0 r1. repeat split.
  - intros H0 H1. apply two_corners_right_missing; assumption.
  - intros H0 H1. apply two_corners_left_missing; assumption.
  - intros H0 H1. rewrite (two_corners_both_missing _ _ r0 r1 np H0 H1). apply nth_repeat.
Qed.

(* ---- exact for linearly varying data ---- *)
Lemma interp_linear_exact : forall xp rows x np j a b,
  sasc xp -> (2 <= length xp)%nat -> hd0 xp <= x <= last0 xp -> (j < np)%nat ->
  (forall k, (k < length xp)%nat ->
     all_some (nth k rows []) = true /\ oget (nth k rows []) j = a * rnth xp k + b) ->
  nth j (interp_axis1 xp rows x None false np) None = Some (a * x + b).
Proof.
  intros xp rows x np j a b Hs Hn [Hlo Hhi] Hj Hlin. pose proof (sasc_asc _ Hs) as Ha.
  destruct (Req_dec x (last0 xp)) as [Hl|Hl].
  - rewrite last0_rnth in Hl. subst x.
    destruct (Hlin (length xp - 1)%nat ltac:(lia)) as [Hv Hval].
    rewrite (interp_node xp rows (length xp - 1) np j Hs ltac:(lia) Hv Hj). rewrite Hval. reflexivity.
  - destruct (bracket_exists xp x Hs Hn ltac:(lra)) as [i [Hi Hx]].
    destruct (Hlin i ltac:(lia)) as [Hv0 Hval0].
    destruct (Hlin (i + 1)%nat ltac:(lia)) as [Hv1 Hval1].
    destruct (interp_between xp rows x i np j Ha Hi Hx Hv0 Hv1 Hj) as [_ [E _]].
    rewrite E, Hval0, Hval1. f_equal. field.
    assert (rnth xp i < rnth xp (i + 1)) by (apply Hs; lia). lra.
Qed.

(* ------------------------------------------------------------------ *)
(* nearest mode                                                         *)
(* ------------------------------------------------------------------ *)

Lemma axis_corners_between_nearest : forall xp rows x i, asc xp -> (i + 1 < length xp)%nat ->
  rnth xp i <= x < rnth xp (i + 1) ->
  axis_corners xp rows x None true
  = [ mkc (Some (1 - rint (tfrac xp x i))) (nth i rows []);
      mkc (Some (rint (tfrac xp x i))) (nth (i + 1) rows []) ].
Proof.
  intros xp rows x i Ha Hi Hx. unfold axis_corners, frac_n.
  rewrite (enclosing_between xp x i Ha Hi Hx). cbn [fst snd].
  rewrite (frac_between xp x i false false Ha Hi Hx). reflexivity.
Qed.

Lemma two_corners_pick_right : forall r0 r1 np j, all_some r1 = true -> (j < np)%nat ->
  nth j (interp_corners [mkc (Some (1 - 1)) r0; mkc (Some 1) r1] np) None = Some (oget r1 j).
Proof.
  intros r0 r1 np j H1 Hj.
  rewrite interp_corners_nth by exact Hj. rewrite wsum2, vsum2, !cmask_some, H1. cbn [cw cvals oval].
  destruct (Rgt_dec (1 - 1) 0); [lra|]. destruct (Rgt_dec 1 0); [|lra].
  rewrite !Rplus_0_l. destruct (Rgt_dec 1 (1 / 2)); [|lra]. f_equal. field.
Qed.

(* nearest node: the left node up to and including the mid point (np.rint rounds half to even),
   the right node beyond it *)
Lemma interp_nearest : forall xp rows x i np j,
  asc xp -> (i + 1 < length xp)%nat -> rnth xp i <= x < rnth xp (i + 1) -> (j < np)%nat ->
  let t := (x - rnth xp i) / (rnth xp (i + 1) - rnth xp i) in
  (t <= 1 / 2 -> all_some (nth i rows []) = true ->
   nth j (interp_axis1 xp rows x None true np) None = Some (oget (nth i rows []) j)) /\
  (1 / 2 < t -> all_some (nth (i + 1) rows []) = true ->
   nth j (interp_axis1 xp rows x None true np) None = Some (oget (nth (i + 1) rows []) j)).
Proof.
  intros xp rows x i np j Ha Hi Hx Hj t.
  pose proof (tfrac_bounds xp x i Hx) as Ht. unfold tfrac in Ht. fold t in Ht.
  unfold interp_axis1. rewrite (axis_corners_between_nearest xp rows x i Ha Hi Hx).
  unfold tfrac. fold t. split; intros Hh Hv.
  - assert (E : rint t = 0).
    { destruct (Req_dec t (1 / 2)) as [->|]; [apply rint_half|apply rint_lo; lra]. }
    rewrite E. apply two_corners_node; assumption.
  - rewrite (rint_hi t) by lra. apply two_corners_pick_right; assumption.
Qed.

(* ------------------------------------------------------------------ *)
(* descending grids                                                     *)
(* ------------------------------------------------------------------ *)

Lemma rnth_map_sub : forall c xp i, (i < length xp)%nat ->
  rnth (map (fun v => c - v) xp) i = c - rnth xp i.
Proof.
  intros c xp i Hi. unfold rnth.
  rewrite (nth_indep _ 0 (c - 0)) by (rewrite map_length; exact Hi).
  rewrite (map_nth (fun v => c - v)). reflexivity.
Qed.

Lemma sdesc_descending : forall xp, sdesc xp -> (2 <= length xp)%nat -> descending xp = true.
Proof.
  intros xp H Hn. unfold descending. rewrite hd0_rnth, last0_rnth.
  destruct (Rlt_dec (rnth xp (length xp - 1)) (rnth xp 0)) as [|Hc]; [reflexivity|].
  exfalso. apply Hc. apply H. lia.
Qed.

Lemma sdesc_flip_sasc : forall xp, sdesc xp -> sasc (map (fun v => hd0 xp - v) xp).
Proof.
  intros xp H i j Hij. rewrite map_length in Hij.
  rewrite !rnth_map_sub by lia. assert (rnth xp j < rnth xp i) by (apply H; lia). lra.
Qed.

(* the code's own device: a descending grid is handled in the frame  x' = xp[0] - x *)
Lemma interp_descending_frame : forall xp rows x nearest np, sdesc xp -> (2 <= length xp)%nat ->
  interp_axis1 xp rows x None nearest np
  = interp_axis1 (map (fun v => hd0 xp - v) xp) rows (hd0 xp - x) None nearest np.
Proof.
  intros xp rows x nearest np Hd Hn.
  pose proof (sdesc_descending xp Hd Hn) as Hdesc.
  pose proof (sasc_asc _ (sdesc_flip_sasc xp Hd)) as Ha.
  set (xp' := map (fun v => hd0 xp - v) xp) in *.
  unfold interp_axis1, axis_corners, frac_n, frac, enclosing.
  rewrite (asc_flipx xp' _ Ha), (asc_flipxp xp' Ha).
  unfold flipx, flipxp. rewrite Hdesc. fold xp'.
  assert (Ln : length xp' = length xp) by apply map_length.
  rewrite Ln. reflexivity.
Qed.

Lemma rnth_rev : forall xp i, (i < length xp)%nat -> rnth (rev xp) i = rnth xp (length xp - 1 - i).
Proof.
  intros xp i Hi. unfold rnth. rewrite rev_nth by exact Hi. f_equal. lia.
Qed.

Lemma nth_rev_rows : forall (rows : list (list (option R))) i, (i < length rows)%nat ->
  nth i (rev rows) [] = nth (length rows - 1 - i) rows [].
Proof. intros rows i Hi. rewrite rev_nth by exact Hi. f_equal. lia. Qed.

Lemma sdesc_rev_sasc : forall xp, sdesc xp -> sasc (rev xp).
Proof.
  intros xp H i j Hij. rewrite rev_length in Hij. rewrite !rnth_rev by lia. apply H. lia.
Qed.

(* linear interpolation on a strictly descending grid = interpolation on the reversed grid
   with the data reversed along the axis *)
Lemma interp_descending : forall xp rows x np, sdesc xp -> (2 <= length xp)%nat ->
  length rows = length xp ->
  interp_axis1 xp rows x None false np = interp_axis1 (rev xp) (rev rows) x None false np.
Proof.
  intros xp rows x np Hd Hn Hlen.
  rewrite (interp_descending_frame xp rows x false np Hd Hn).
  set (c := hd0 xp). set (xp' := map (fun v => c - v) xp).
  pose proof (sdesc_flip_sasc xp Hd) as Hs'. fold c xp' in Hs'.
  pose proof (sdesc_rev_sasc xp Hd) as Hsr.
  pose proof (sasc_asc _ Hs') as Ha'. pose proof (sasc_asc _ Hsr) as Har.
  assert (Ln' : length xp' = length xp) by (unfold xp'; apply map_length).
  assert (Lnr : length (rev xp) = length xp) by apply rev_length.
  set (n := length xp) in *.
  assert (Hhd' : hd0 xp' = 0).
  { rewrite hd0_rnth. unfold xp'. rewrite rnth_map_sub by lia. unfold c. rewrite hd0_rnth. ring. }
  assert (Hlast' : last0 xp' = c - rnth xp (n - 1)).
  { rewrite last0_rnth, Ln'. unfold xp'. rewrite rnth_map_sub by lia. reflexivity. }
  assert (Hhdr : hd0 (rev xp) = rnth xp (n - 1)).
  { rewrite hd0_rnth, rnth_rev by lia. f_equal. lia. }
  assert (Hlastr : last0 (rev xp) = c).
  { rewrite last0_rnth, Lnr, rnth_rev by lia. unfold c. rewrite hd0_rnth. f_equal. lia. }
  (* position of x relative to the reversed (ascending) grid *)
  destruct (Rlt_dec x (rnth xp (n - 1))) as [Hlow|Hlow].
  { rewrite (interp_outside_none xp' rows (c - x) false np Ha') by (try lia; right; lra).
    rewrite (interp_outside_none (rev xp) (rev rows) x false np Har) by (try lia; left; lra).
    reflexivity. }
  destruct (Rlt_dec c x) as [Hhigh|Hhigh].
  { rewrite (interp_outside_none xp' rows (c - x) false np Ha') by (try lia; left; lra).
    rewrite (interp_outside_none (rev xp) (rev rows) x false np Har) by (try lia; right; lra).
    reflexivity. }
  destruct (Req_dec x c) as [Htop|Htop].
  { (* x = xp[0]: first node of xp', last node of rev xp *)
    assert (E1 : c - x = rnth xp' 0) by (rewrite <- hd0_rnth, Hhd'; lra).
    assert (E2 : x = rnth (rev xp) (n - 1)) by (rewrite <- Lnr at 1; rewrite <- last0_rnth, Hlastr; exact Htop).
    rewrite E1. rewrite E2.
    unfold interp_axis1.
    destruct (axis_corners_node xp' rows 0 Hs' ltac:(lia)) as [r1 F1].
    destruct (axis_corners_node (rev xp) (rev rows) (n - 1) Hsr ltac:(lia)) as [r2 F2].
    rewrite F1, F2. rewrite nth_rev_rows by lia.
    replace (length rows - 1 - (n - 1))%nat with 0%nat by lia.
    destruct (all_some (nth 0 rows [])) eqn:Hv.
    - unfold interp_corners. rewrite !wsum2, !cmask_some, Hv.
      destruct (Rgt_dec (1 - 0) 0); destruct (Rgt_dec 0 0); try lra.
      apply map_ext. intros j. rewrite !vsum2, !cmask_some, Hv.
      destruct (Rgt_dec (1 - 0) 0); destruct (Rgt_dec 0 0); try lra. reflexivity.
    - rewrite !two_corners_node_missing by exact Hv. reflexivity. }
  (* rnth xp (n-1) <= x < c : a bracket of the reversed grid *)
  destruct (bracket_exists (rev xp) x Hsr ltac:(lia) ltac:(rewrite Hhdr, Hlastr; lra)) as [k [Hk Hx]].
  rewrite Lnr in Hk. rewrite !rnth_rev in Hx by lia. fold n in Hx.
  set (i := (n - 2 - k)%nat).
  assert (Ei1 : (n - 1 - k)%nat = (i + 1)%nat) by (unfold i; lia).
  assert (Ei0 : (n - 1 - (k + 1))%nat = i) by (unfold i; lia).
  rewrite Ei1, Ei0 in Hx.
  assert (Hi : (i + 1 < n)%nat) by (unfold i; lia).
  destruct (Req_dec x (rnth xp (i + 1))) as [Hnode|Hnn].
  { (* a node of both grids *)
    assert (E1 : c - x = rnth xp' (i + 1)) by (unfold xp'; rewrite rnth_map_sub by lia; lra).
    assert (E2 : x = rnth (rev xp) k) by (rewrite rnth_rev by lia; fold n; rewrite Ei1; exact Hnode).
    rewrite E1. rewrite E2. unfold interp_axis1.
    destruct (axis_corners_node xp' rows (i + 1) Hs' ltac:(lia)) as [r1 F1].
    destruct (axis_corners_node (rev xp) (rev rows) k Hsr ltac:(lia)) as [r2 F2].
    rewrite F1, F2. rewrite nth_rev_rows by lia. rewrite Hlen. fold n. rewrite Ei1.
    destruct (all_some (nth (i + 1) rows [])) eqn:Hv.
    - unfold interp_corners. rewrite !wsum2, !cmask_some, Hv.
      destruct (Rgt_dec (1 - 0) 0); destruct (Rgt_dec 0 0); try lra.
      apply map_ext. intros j. rewrite !vsum2, !cmask_some, Hv.
      destruct (Rgt_dec (1 - 0) 0); destruct (Rgt_dec 0 0); try lra. reflexivity.
    - rewrite !two_corners_node_missing by exact Hv. reflexivity. }
  (* strictly between two nodes: xp[i+1] < x < xp[i] *)
  assert (Hx' : rnth xp' i <= c - x < rnth xp' (i + 1)).
  { unfold xp'. rewrite !rnth_map_sub by lia. lra. }
  assert (Hxr : rnth (rev xp) k <= x < rnth (rev xp) (k + 1)).
  { rewrite !rnth_rev by lia. fold n. rewrite Ei1, Ei0. lra. }
  unfold interp_axis1.
  rewrite (axis_corners_between xp' rows (c - x) i Ha' ltac:(lia) Hx').
  rewrite (axis_corners_between (rev xp) (rev rows) x k Har ltac:(lia) Hxr).
  rewrite !nth_rev_rows by lia. rewrite Hlen. fold n. rewrite Ei1, Ei0.
  assert (Et : tfrac (rev xp) x k = 1 - tfrac xp' (c - x) i).
  { unfold tfrac. rewrite !rnth_rev by lia. fold n. rewrite Ei1, Ei0.
    unfold xp'. rewrite !rnth_map_sub by lia. field. lra. }
  rewrite Et. replace (1 - (1 - tfrac xp' (c - x) i)) with (tfrac xp' (c - x) i) by ring.
  apply interp_corners_swap.
Qed.

(* ------------------------------------------------------------------ *)
(* pass-through                                                         *)
(* ------------------------------------------------------------------ *)

Lemma passthrough : forall xp v xs period nearest np, v_has_coord v = false ->
  interp_variable xp v xs period nearest np = v_rows v.
Proof. intros. unfold interp_variable. rewrite H. reflexivity. Qed.

Lemma interp_variable_coord : forall xp v xs period nearest np k, v_has_coord v = true ->
  (k < length xs)%nat ->
  nth k (interp_variable xp v xs period nearest np) []
  = interp_axis1 xp (v_rows v) (nth k xs 0) period nearest np.
Proof.
  intros xp v xs period nearest np k H Hk. unfold interp_variable, interp_axis. rewrite H.
  rewrite (nth_indep _ [] (interp_axis1 xp (v_rows v) 0 period nearest np))
    by (rewrite map_length; exact Hk).
  rewrite (map_nth (fun x => interp_axis1 xp (v_rows v) x period nearest np)). reflexivity.
Qed.

(* ------------------------------------------------------------------ *)
(* the corner engine in general: convexity                              *)
(* ------------------------------------------------------------------ *)

Lemma cmask_true : forall c, cmask c = true ->
  exists w, cw c = Some w /\ w > 0 /\ all_some (cvals c) = true.
Proof.
  intros c H. unfold cmask in H. destruct (cw c) as [w|]; [|discriminate].
  destruct (Rgt_dec w 0); [|discriminate]. exists w. auto.
Qed.

Lemma engine_invariant : forall lo hi j cs aw av,
  (forall c, In c cs -> cmask c = true -> lo <= oget (cvals c) j <= hi) ->
  0 <= aw -> lo * aw <= av <= hi * aw ->
  let W := fold_left (fun acc c => if cmask c then acc + oval (cw c) else acc) cs aw in
  let V := fold_left (fun acc c => if cmask c then acc + oval (cw c) * oget (cvals c) j else acc) cs av in
  aw <= W /\ lo * W <= V <= hi * W.
Proof.
  intros lo hi j cs. induction cs as [|c cs IH]; intros aw av Hb Haw Hav; cbn [fold_left].
  - lra.
  - assert (Hb' : forall c', In c' cs -> cmask c' = true -> lo <= oget (cvals c') j <= hi)
      by (intros c' Hin; apply Hb; right; exact Hin).
    destruct (cmask c) eqn:Hm.
    + destruct (cmask_true c Hm) as [w [Hw [Hpos _]]]. rewrite Hw. cbn [oval].
      destruct (Hb c (or_introl eq_refl) Hm) as [Hl Hh].
      assert (lo * w <= w * oget (cvals c) j) by (rewrite (Rmult_comm lo w); apply Rmult_le_compat_l; lra).
      assert (w * oget (cvals c) j <= hi * w) by (rewrite (Rmult_comm hi w); apply Rmult_le_compat_l; lra).
      destruct (IH (aw + w) (av + w * oget (cvals c) j) Hb' ltac:(lra) ltac:(lra)) as [H1 H2].
      split; [lra|exact H2].
    + apply IH; assumption.
Qed.

(* every interpolated value is a convex combination of the corner values that take part *)
Lemma interp_corners_bounded : forall cs np j lo hi v,
  (forall c, In c cs -> cmask c = true -> lo <= oget (cvals c) j <= hi) ->
  (j < np)%nat -> nth j (interp_corners cs np) None = Some v -> lo <= v <= hi.
Proof.
  intros cs np j lo hi v Hb Hj Hv. rewrite interp_corners_nth in Hv by exact Hj.
  destruct (Rgt_dec (wsum cs) (1 / 2)) as [HW|]; [|discriminate]. injection Hv as <-.
  destruct (engine_invariant lo hi j cs 0 0 Hb ltac:(lra) ltac:(lra)) as [_ [H1 H2]].
  fold (wsum cs) in H1, H2. fold (vsum cs j) in H1, H2.
  assert (Hi : 0 < / wsum cs) by (apply Rinv_0_lt_compat; lra).
  unfold Rdiv. split.
  - replace lo with (lo * wsum cs * / wsum cs) by (field; lra).
    apply Rmult_le_compat_r; lra.
  - replace hi with (hi * wsum cs * / wsum cs) by (field; lra).
    apply Rmult_le_compat_r; lra.
Qed.

(* when no corner is missing and all weights are >= 0 the mask only removes zero weights *)
Definition sumf (f : corner -> R) (cs : list corner) : R := fold_right (fun c a => f c + a) 0 cs.

Lemma engine_all_valid : forall j cs aw av,
  (forall c, In c cs -> exists w, cw c = Some w /\ 0 <= w /\ all_some (cvals c) = true) ->
  fold_left (fun acc c => if cmask c then acc + oval (cw c) else acc) cs aw
  = aw + sumf (fun c => oval (cw c)) cs /\
  fold_left (fun acc c => if cmask c then acc + oval (cw c) * oget (cvals c) j else acc) cs av
  = av + sumf (fun c => oval (cw c) * oget (cvals c) j) cs.
Proof.
  intros j cs. induction cs as [|c cs IH]; intros aw av H; cbn [fold_left sumf fold_right].
  - split; ring.
  - destruct (H c (or_introl eq_refl)) as [w [Hw [Hpos Hv]]].
    assert (H' : forall c', In c' cs -> exists w, cw c' = Some w /\ 0 <= w /\ all_some (cvals c') = true)
      by (intros c' Hin; apply H; right; exact Hin).
    assert (Hm : cmask c = if Rgt_dec w 0 then true else false) by (unfold cmask; rewrite Hw, Hv; reflexivity).
    rewrite Hm, Hw. cbn [oval]. fold (sumf (fun c => oval (cw c)) cs).
    fold (sumf (fun c => oval (cw c) * oget (cvals c) j) cs).
    destruct (Rgt_dec w 0).
    + destruct (IH (aw + w) (av + w * oget (cvals c) j) H') as [E1 E2]. rewrite E1, E2. split; ring.
    + assert (w = 0) by lra. subst w.
      destruct (IH aw av H') as [E1 E2]. rewrite E1, E2. split; ring.
Qed.

Lemma interp_corners_all_valid : forall cs np j,
  (forall c, In c cs -> exists w, cw c = Some w /\ 0 <= w /\ all_some (cvals c) = true) ->
  sumf (fun c => oval (cw c)) cs = 1 -> (j < np)%nat ->
  nth j (interp_corners cs np) None = Some (sumf (fun c => oval (cw c) * oget (cvals c) j) cs).
Proof.
  intros cs np j H Hs Hj. rewrite interp_corners_nth by exact Hj.
  destruct (engine_all_valid j cs 0 0 H) as [E1 E2].
  unfold wsum, vsum. rewrite E1, E2, Hs.
  replace (0 + 1) with 1 by ring. destruct (Rgt_dec 1 (1 / 2)); [|lra]. f_equal. field.
Qed.

(* ------------------------------------------------------------------ *)
(* N axes: the 2^N corner weights                                       *)
(* ------------------------------------------------------------------ *)

Definition sumw (l : list (list nat * option R)) : R :=
  fold_right (fun c a => oval (snd c) + a) 0 l.

Lemma sumw_app : forall l1 l2, sumw (l1 ++ l2) = sumw l1 + sumw l2.
Proof.
  induction l1 as [|c l IH]; intros l2.
  - cbn [app]. unfold sumw at 2. cbn [fold_right]. ring.
  - change (sumw ((c :: l) ++ l2)) with (oval (snd c) + sumw (l ++ l2)).
    change (sumw (c :: l)) with (oval (snd c) + sumw l). rewrite IH. ring.
Qed.

Definition unit_weights (a : (nat * nat) * (option R * option R)) : Prop :=
  exists t, 0 <= t <= 1 /\ snd a = (Some (1 - t), Some t).

(* composition over the axes, by induction on their number *)
Lemma nd_corners_sum : forall axes idx w, Forall unit_weights axes ->
  sumw (nd_corners axes idx (Some w)) = w.
Proof.
  induction axes as [|a rest IH]; intros idx w HF.
  - cbn. ring.
  - inversion HF as [|a' r' Ha Hr]; subst.
    destruct a as [[i0 i1] [w0 w1]]. destruct Ha as [t [Ht E]]. cbn [snd] in E. injection E as -> ->.
    cbn [nd_corners omul]. rewrite sumw_app, !IH by exact Hr. ring.
Qed.

Lemma nd_corners_length : forall axes idx w, length (nd_corners axes idx w) = (2 ^ length axes)%nat.
Proof.
  induction axes as [|a rest IH]; intros idx w; [reflexivity|].
  destruct a as [[i0 i1] [w0 w1]]. cbn [nd_corners length]. rewrite app_length, !IH.
  cbn [Nat.pow]. lia.
Qed.

Lemma nd_corners_weights : forall axes idx w c, Forall unit_weights axes -> 0 <= w ->
  In c (nd_corners axes idx (Some w)) -> exists v, snd c = Some v /\ 0 <= v.
Proof.
  induction axes as [|a rest IH]; intros idx w c HF Hw Hin.
  - cbn in Hin. destruct Hin as [<-|[]]. exists w. auto.
  - inversion HF as [|a' r' Ha Hr]; subst.
    destruct a as [[i0 i1] [w0 w1]]. destruct Ha as [t [Ht E]]. cbn [snd] in E. injection E as -> ->.
    cbn [nd_corners omul] in Hin. apply in_app_or in Hin. destruct Hin as [Hin|Hin].
    + apply (IH (idx ++ [i0]) (w * (1 - t)) c Hr); [apply Rmult_le_pos; lra|exact Hin].
    + apply (IH (idx ++ [i1]) (w * t) c Hr); [apply Rmult_le_pos; lra|exact Hin].
Qed.

(* the axis entry produced for a target inside an ascending, non periodic grid *)
Lemma axis_entry_between : forall g x i, asc g -> (i + 1 < length g)%nat ->
  rnth g i <= x < rnth g (i + 1) ->
  let ii := enclosing g x None in
  (ii, (w_lo (frac_n g x ii None false), w_hi (frac_n g x ii None false)))
  = ((i, (i + 1)%nat), (Some (1 - tfrac g x i), Some (tfrac g x i))).
Proof.
  intros g x i Ha Hi Hx. cbv zeta. rewrite (enclosing_between g x i Ha Hi Hx).
  unfold frac_n. rewrite (frac_between g x i false false Ha Hi Hx). reflexivity.
Qed.

Lemma axis_entry_unit : forall g x i, asc g -> (i + 1 < length g)%nat ->
  rnth g i <= x < rnth g (i + 1) ->
  unit_weights (enclosing g x None,
                (w_lo (frac_n g x (enclosing g x None) None false),
                 w_hi (frac_n g x (enclosing g x None) None false))).
Proof.
  intros g x i Ha Hi Hx. pose proof (axis_entry_between g x i Ha Hi Hx) as E. cbv zeta in E.
  rewrite E. exists (tfrac g x i). split; [|reflexivity].
  pose proof (tfrac_bounds g x i Hx). lra.
Qed.

Lemma sumf_map_corners : forall (get : list nat -> option R) l,
  sumf (fun c => oval (cw c)) (map (fun iw => mkc (snd iw) [get (fst iw)]) l) = sumw l.
Proof.
  induction l as [|c l IH]; [reflexivity|]. cbn [map sumf sumw fold_right cw].
  fold (sumf (fun c => oval (cw c)) (map (fun iw => mkc (snd iw) [get (fst iw)]) l)). fold (sumw l).
  rewrite IH. reflexivity.
Qed.

(* N-dimensional interpolation of finite data with unit weights on every axis:
   a value is returned and it lies between the smallest and largest corner value *)
Lemma interp_nd_convex : forall axes (get : list nat -> option R) lo hi,
  Forall unit_weights axes ->
  (forall idx, exists v, get idx = Some v /\ lo <= v <= hi) ->
  exists v, nth 0 (interp_corners (map (fun iw => mkc (snd iw) [get (fst iw)])
                                       (nd_corners axes [] (Some 1))) 1) None = Some v
            /\ lo <= v <= hi.
Proof.
  intros axes get lo hi HF Hget.
  set (cs := map (fun iw => mkc (snd iw) [get (fst iw)]) (nd_corners axes [] (Some 1))).
  assert (Hval : forall c, In c cs -> exists w, cw c = Some w /\ 0 <= w /\ all_some (cvals c) = true).
  { intros c Hin. unfold cs in Hin. apply in_map_iff in Hin. destruct Hin as [iw [<- Hin]].
    destruct (nd_corners_weights axes [] 1 iw HF ltac:(lra) Hin) as [v [Hv Hp]].
    exists v. cbn [cw cvals]. split; [exact Hv|]. split; [exact Hp|].
    destruct (Hget (fst iw)) as [u [Hu _]]. rewrite Hu. reflexivity. }
  assert (Hsum : sumf (fun c => oval (cw c)) cs = 1).
  { unfold cs. rewrite sumf_map_corners. apply nd_corners_sum. exact HF. }
  pose proof (interp_corners_all_valid cs 1 0 Hval Hsum ltac:(lia)) as E.
  eexists. split; [exact E|].
  apply (interp_corners_bounded cs 1 0 lo hi _) with (3 := E); [|lia].
  intros c Hin _. unfold cs in Hin. apply in_map_iff in Hin. destruct Hin as [iw [<- _]].
  cbn [cvals]. unfold oget. cbn [nth]. destruct (Hget (fst iw)) as [u [Hu Hb]]. rewrite Hu. exact Hb.
Qed.

(* two axes written out: bilinear interpolation *)
Lemma interp_nd_bilinear : forall g0 g1 data x y i k f00 f01 f10 f11,
  asc g0 -> asc g1 -> (i + 1 < length g0)%nat -> (k + 1 < length g1)%nat ->
  rnth g0 i <= x < rnth g0 (i + 1) -> rnth g1 k <= y < rnth g1 (k + 1) ->
  nd_get [length g0; length g1] data [i; k] = Some f00 ->
  nd_get [length g0; length g1] data [i; (k + 1)%nat] = Some f01 ->
  nd_get [length g0; length g1] data [(i + 1)%nat; k] = Some f10 ->
  nd_get [length g0; length g1] data [(i + 1)%nat; (k + 1)%nat] = Some f11 ->
  let s := tfrac g0 x i in
  let t := tfrac g1 y k in
  interp_nd [g0; g1] [None; None] data [x; y] false
  = Some ((1 - s) * (1 - t) * f00 + (1 - s) * t * f01 + s * (1 - t) * f10 + s * t * f11).
Proof.
  intros g0 g1 data x y i k f00 f01 f10 f11 Ha0 Ha1 Hi Hk Hx Hy E00 E01 E10 E11 s t.
  unfold interp_nd, nd_corner_list, nd_axes. cbn [combine map2 map].
  pose proof (axis_entry_between g0 x i Ha0 Hi Hx) as A0. cbv zeta in A0. rewrite A0.
  pose proof (axis_entry_between g1 y k Ha1 Hk Hy) as A1. cbv zeta in A1. rewrite A1.
  fold s t. cbn [nd_corners app omul map fst snd]. rewrite E00, E01, E10, E11.
  pose proof (tfrac_bounds g0 x i Hx) as Hs. fold s in Hs.
  pose proof (tfrac_bounds g1 y k Hy) as Ht. fold t in Ht.
  rewrite interp_corners_all_valid; [| | |lia].
  - f_equal. cbn [sumf fold_right cw cvals oval]. unfold oget. cbn [nth oval]. ring.
  - intros c Hin. cbn [In] in Hin.
    destruct Hin as [<-|[<-|[<-|[<-|[]]]]]; eexists; cbn [cw cvals]; (split; [reflexivity|]); (split; [|reflexivity]).
    + apply Rmult_le_pos; [apply Rmult_le_pos|]; lra.
    + apply Rmult_le_pos; [apply Rmult_le_pos|]; lra.
    + apply Rmult_le_pos; [apply Rmult_le_pos|]; lra.
    + apply Rmult_le_pos; [apply Rmult_le_pos|]; lra.
  - cbn [sumf fold_right cw oval]. ring.
Qed.

(* ------------------------------------------------------------------ *)
(* spectra: energy-weighted moments, fill value                         *)
(* ------------------------------------------------------------------ *)

Lemma nth_map2 : forall (A B C : Type) (f : A -> B -> C) l1 l2 j da db dc,
  (j < length l1)%nat -> (j < length l2)%nat ->
  nth j (map2 f l1 l2) dc = f (nth j l1 da) (nth j l2 db).
Proof.
  intros A B C f. induction l1 as [|a l1 IH]; intros l2 j da db dc H1 H2; [cbn in H1; lia|].
  destruct l2 as [|b l2]; [cbn in H2; lia|]. destruct j as [|j']; [reflexivity|].
  cbn [map2 nth]. apply IH; cbn [length] in *; lia.
Qed.

Lemma map2_length : forall (A B C : Type) (f : A -> B -> C) l1 l2,
  length (map2 f l1 l2) = Nat.min (length l1) (length l2).
Proof.
  intros A B C f. induction l1 as [|a l1 IH]; intros l2; [reflexivity|].
  destruct l2 as [|b l2]; [reflexivity|]. cbn [map2 length]. rewrite IH. reflexivity.
Qed.

Lemma all_some_nth : forall r j, all_some r = true -> (j < length r)%nat ->
  nth j r None = Some (oget r j).
Proof.
  unfold all_some, oget. induction r as [|v r IH]; intros j H Hj; [cbn in Hj; lia|].
  cbn [forallb] in H. apply andb_prop in H. destruct H as [Hv Hr].
  destruct j as [|j']; cbn [nth].
  - destruct v; [reflexivity|discriminate].
  - apply IH; [exact Hr|cbn [length] in Hj; lia].
Qed.

Lemma all_some_map2_omul : forall ra re, all_some ra = true -> all_some re = true ->
  all_some (map2 omul ra re) = true.
Proof.
  unfold all_some. induction ra as [|a ra IH]; intros re Ha He; [reflexivity|].
  destruct re as [|e re]; [reflexivity|]. cbn [map2 forallb] in *.
  apply andb_prop in Ha. apply andb_prop in He. destruct Ha as [Ha1 Ha2], He as [He1 He2].
  destruct a; [|discriminate]. destruct e; [|discriminate]. cbn. apply IH; assumption.
Qed.

Lemma oget_map2_omul : forall ra re j, all_some ra = true -> all_some re = true ->
  (j < length ra)%nat -> (j < length re)%nat ->
  oget (map2 omul ra re) j = oget ra j * oget re j.
Proof.
  intros ra re j Ha He Hja Hje. unfold oget at 1.
  rewrite (nth_map2 _ _ _ omul ra re j None None None Hja Hje).
  rewrite (all_some_nth ra j Ha Hja), (all_some_nth re j He Hje). reflexivity.
Qed.

Lemma nth_scale_rows : forall arows erows i, (i < length arows)%nat -> (i < length erows)%nat ->
  nth i (scale_rows arows erows) [] = map2 omul (nth i arows []) (nth i erows []).
Proof.
  intros. unfold scale_rows.
  apply (nth_map2 _ _ _ (fun ra re => map2 omul ra re) arows erows i [] [] []); assumption.
Qed.

(* 1D spectra: between two valid nodes the moment is the ENERGY-WEIGHTED mean of the node
   moments (a*E is interpolated, then divided by the interpolated E); missing -> fill value *)
Lemma spectrum_interp_energy_weighted : forall xp erows arows x i np j ext,
  asc xp -> (i + 1 < length xp)%nat -> rnth xp i <= x < rnth xp (i + 1) ->
  length erows = length xp -> length arows = length xp ->
  all_some (nth i erows []) = true -> all_some (nth (i + 1) erows []) = true ->
  all_some (nth i arows []) = true -> all_some (nth (i + 1) arows []) = true ->
  length (nth i erows []) = np -> length (nth (i + 1) erows []) = np ->
  length (nth i arows []) = np -> length (nth (i + 1) arows []) = np -> (j < np)%nat ->
  let t := (x - rnth xp i) / (rnth xp (i + 1) - rnth xp i) in
  let e0 := oget (nth i erows []) j in
  let e1 := oget (nth (i + 1) erows []) j in
  let a0 := oget (nth i arows []) j in
  let a1 := oget (nth (i + 1) arows []) j in
  let '(ei, ai) := spectrum_interp1 xp erows arows x false ext np in
  nth j ei 0 = (1 - t) * e0 + t * e1 /\
  nth j ai 0 = if Req_EM_T ((1 - t) * e0 + t * e1) 0 then ext
               else ((1 - t) * (a0 * e0) + t * (a1 * e1)) / ((1 - t) * e0 + t * e1).
Proof.
  intros xp erows arows x i np j ext Ha Hi Hx Le La Ve0 Ve1 Va0 Va1 Ne0 Ne1 Na0 Na1 Hj t e0 e1 a0 a1.
  unfold spectrum_interp1.
  destruct (interp_between xp erows x i np j Ha Hi Hx Ve0 Ve1 Hj) as [_ [EE _]].
  assert (Hm0 : nth i (scale_rows arows erows) [] = map2 omul (nth i arows []) (nth i erows []))
    by (apply nth_scale_rows; lia).
  assert (Hm1 : nth (i + 1) (scale_rows arows erows) [] = map2 omul (nth (i + 1) arows []) (nth (i + 1) erows []))
    by (apply nth_scale_rows; lia).
  assert (Vm0 : all_some (nth i (scale_rows arows erows) []) = true)
    by (rewrite Hm0; apply all_some_map2_omul; assumption).
  assert (Vm1 : all_some (nth (i + 1) (scale_rows arows erows) []) = true)
    by (rewrite Hm1; apply all_some_map2_omul; assumption).
  destruct (interp_between xp (scale_rows arows erows) x i np j Ha Hi Hx Vm0 Vm1 Hj) as [_ [EM _]].
  rewrite Hm0, Hm1 in EM.
  rewrite !oget_map2_omul in EM by (try assumption; lia).
  fold t e0 e1 in EE. fold t e0 e1 a0 a1 in EM.
  set (EI := interp_axis1 xp erows x None false np) in *.
  set (MI := interp_axis1 xp (scale_rows arows erows) x None false np) in *.
  assert (LEI : length EI = np) by (unfold EI, interp_axis1; apply interp_corners_length).
  assert (LMI : length MI = np) by (unfold MI, interp_axis1; apply interp_corners_length).
  split.
  - rewrite (nth_indep _ 0 (fillna ext None)) by (rewrite map_length; lia).
    rewrite (map_nth (fillna ext)). rewrite EE. reflexivity.
  - rewrite (nth_indep _ 0 (fillna ext None)) by (rewrite map_length, map2_length; lia).
    rewrite (map_nth (fillna ext)).
    rewrite (nth_map2 _ _ _ odiv MI EI j None None None) by lia.
    rewrite EE, EM. unfold odiv.
    destruct (Req_EM_T ((1 - t) * e0 + t * e1) 0); reflexivity.
Qed.

Lemma energy_interp_outside_fill : forall xp erows x nearest ext np j,
  asc xp -> (1 <= length xp)%nat -> x < hd0 xp \/ last0 xp < x -> (j < np)%nat ->
  nth j (energy_interp1 xp erows x None nearest ext np) 0 = ext.
Proof.
  intros xp erows x nearest ext np j Ha Hn Hx Hj. unfold energy_interp1.
  rewrite (interp_outside_none xp erows x nearest np Ha Hn Hx).
  rewrite (nth_indep _ 0 (fillna ext None)) by (rewrite map_length, repeat_length; exact Hj).
  rewrite (map_nth (fillna ext)). rewrite nth_repeat. reflexivity.
Qed.

(* ------------------------------------------------------------------ *)
(* interpolate_dataset_grid on (x, y): composition of two axis steps    *)
(* ------------------------------------------------------------------ *)

Lemma nth_interp_axis : forall xp rows xs period nearest np a, (a < length xs)%nat ->
  nth a (interp_axis xp rows xs period nearest np) []
  = interp_axis1 xp rows (nth a xs 0) period nearest np.
Proof.
  intros xp rows xs period nearest np a Ha. unfold interp_axis.
  rewrite (nth_indep _ [] (interp_axis1 xp rows 0 period nearest np)) by (rewrite map_length; exact Ha).
  rewrite (map_nth (fun x => interp_axis1 xp rows x period nearest np)). reflexivity.
Qed.

Lemma nth_columns : forall mat ny k, (k < ny)%nat ->
  nth k (columns mat ny) [] = map (fun r => nth k r None) mat.
Proof. intros mat ny k Hk. unfold columns. rewrite nth_map_seq by exact Hk. reflexivity. Qed.

Lemma all_some_map : forall (A : Type) (f : A -> option R) l,
  (forall x, In x l -> exists v, f x = Some v) -> all_some (map f l) = true.
Proof.
  intros A f l H. unfold all_some. induction l as [|x l IH]; [reflexivity|].
  cbn [map forallb]. destruct (H x (or_introl eq_refl)) as [v Hv]. rewrite Hv. cbn.
  apply IH. intros y Hy. apply H. right. exact Hy.
Qed.

Lemma all_some_false_in : forall l, In None l -> all_some l = false.
Proof.
  unfold all_some. induction l as [|x l IH]; intros H; [destruct H|].
  cbn [forallb]. destruct H as [->|H]; [reflexivity|]. rewrite (IH H). destruct (is_some x); reflexivity.
Qed.

Lemma enclosing_lt : forall xp x, (1 <= length xp)%nat ->
  (fst (enclosing xp x None) < length xp)%nat /\ (snd (enclosing xp x None) < length xp)%nat.
Proof.
  intros xp x Hn. unfold enclosing. cbn [fst snd].
  destruct (Nat.eqb _ 0); split; lia.
Qed.

Lemma interp_axis1_all_missing : forall xp rows x nearest np, (1 <= length xp)%nat ->
  (forall i, (i < length xp)%nat -> all_some (nth i rows []) = false) ->
  interp_axis1 xp rows x None nearest np = repeat None np.
Proof.
  intros xp rows x nearest np Hn H. unfold interp_axis1, axis_corners.
  destruct (enclosing_lt xp x Hn) as [H0 H1].
  apply two_corners_both_missing; apply H; assumption.
Qed.

(* all targets inside, finite data: the two steps give the bilinear value *)
Lemma interp_grid2_bilinear : forall xp yp m xs ys a b i k,
  asc xp -> asc yp -> (i + 1 < length xp)%nat -> (k + 1 < length yp)%nat ->
  (a < length xs)%nat -> (b < length ys)%nat ->
  rnth xp i <= nth a xs 0 < rnth xp (i + 1) -> rnth yp k <= nth b ys 0 < rnth yp (k + 1) ->
  (forall a', (a' < length xs)%nat ->
     exists i', (i' + 1 < length xp)%nat /\ rnth xp i' <= nth a' xs 0 < rnth xp (i' + 1)) ->
  (forall i', (i' < length xp)%nat -> all_some (nth i' m []) = true) ->
  let s := tfrac xp (nth a xs 0) i in
  let t := tfrac yp (nth b ys 0) k in
  let f i' k' := oget (nth i' m []) k' in
  nth a (nth b (interp_grid2 xp yp m xs ys false) []) None
  = Some ((1 - t) * ((1 - s) * f i k + s * f (i + 1)%nat k)
          + t * ((1 - s) * f i (k + 1)%nat + s * f (i + 1)%nat (k + 1)%nat)).
Proof.
  intros xp yp m xs ys a b i k Hax Hay Hi Hk Ha Hb Hx Hy Hall Hv s t f.
  unfold interp_grid2. set (ny := length yp). set (r := interp_axis xp m xs None false ny).
  assert (Lr : length r = length xs) by (unfold r, interp_axis; apply map_length).
  (* every entry of the first step is present *)
  assert (Hr : forall a' j, (a' < length xs)%nat -> (j < ny)%nat ->
            exists v, nth j (nth a' r []) None = Some v).
  { intros a' j Ha' Hj. unfold r. rewrite nth_interp_axis by exact Ha'.
    destruct (Hall a' Ha') as [i' [Hi' Hx']].
    destruct (interp_between xp m (nth a' xs 0) i' ny j Hax Hi' Hx' (Hv i' ltac:(lia)) (Hv (i' + 1)%nat ltac:(lia)) Hj)
      as [_ [E _]]. eexists. exact E. }
  assert (Hcol : forall k', (k' < ny)%nat -> all_some (nth k' (columns r ny) []) = true).
  { intros k' Hk'. rewrite nth_columns by exact Hk'. apply all_some_map.
    intros row Hin. destruct (In_nth r row [] Hin) as [a' [Ha' <-]]. rewrite Lr in Ha'.
    apply Hr; assumption. }
  rewrite nth_interp_axis by exact Hb.
  destruct (interp_between yp (columns r ny) (nth b ys 0) k (length xs) a Hay Hk Hy
              (Hcol k ltac:(unfold ny; lia)) (Hcol (k + 1)%nat ltac:(unfold ny; lia)) Ha) as [_ [E _]].
  rewrite E. fold (tfrac yp (nth b ys 0) k). fold t.
  assert (Hval : forall k', (k' < ny)%nat ->
            oget (nth k' (columns r ny) []) a = (1 - s) * f i k' + s * f (i + 1)%nat k').
  { intros k' Hk'. rewrite nth_columns by exact Hk'. unfold oget.
    rewrite (nth_indep _ None ((fun row => nth k' row None) [])) by (rewrite map_length, Lr; exact Ha).
    rewrite (map_nth (fun row => nth k' row None)).
    unfold r. rewrite nth_interp_axis by exact Ha.
    destruct (interp_between xp m (nth a xs 0) i ny k' Hax Hi Hx (Hv i ltac:(lia)) (Hv (i + 1)%nat ltac:(lia)) Hk')
      as [_ [E' _]]. rewrite E'. reflexivity. }
  rewrite (Hval k) by (unfold ny; lia). rewrite (Hval (k + 1)%nat) by (unfold ny; lia). reflexivity.
Qed.

(* one target of the first coordinate outside its grid makes EVERY output missing: the second
   step evaluates its NaN mask across all targets of the first one *)
Lemma interp_grid2_outside_poisons : forall xp yp m xs ys nearest a0 a b,
  asc xp -> (1 <= length xp)%nat -> (1 <= length yp)%nat ->
  (a0 < length xs)%nat -> (nth a0 xs 0 < hd0 xp \/ last0 xp < nth a0 xs 0) ->
  (a < length xs)%nat -> (b < length ys)%nat ->
  nth a (nth b (interp_grid2 xp yp m xs ys nearest) []) None = None.
Proof.
  intros xp yp m xs ys nearest a0 a b Hax Hnx Hny Ha0 Hout Ha Hb.
  unfold interp_grid2. set (ny := length yp). set (r := interp_axis xp m xs None nearest ny).
  rewrite nth_interp_axis by exact Hb.
  rewrite interp_axis1_all_missing; [apply nth_repeat|exact Hny|].
  intros k Hk. rewrite nth_columns by exact Hk. apply all_some_false_in.
  apply in_map_iff. exists (nth a0 r []). split.
  - unfold r. rewrite nth_interp_axis by exact Ha0.
    rewrite (interp_outside_none xp m (nth a0 xs 0) nearest ny Hax Hnx Hout). apply nth_repeat.
  - apply nth_In. unfold r, interp_axis. rewrite map_length. exact Ha0.
Qed.

(* ------------------------------------------------------------------ *)
(* descending grids, nearest mode                                       *)
(* ------------------------------------------------------------------ *)

Lemma axis_corners_node_nearest : forall xp rows k, sasc xp -> (k < length xp)%nat ->
  exists r1, axis_corners xp rows (rnth xp k) None true
             = [mkc (Some (1 - 0)) (nth k rows []); mkc (Some 0) r1].
Proof.
  intros xp rows k Hs Hk. pose proof (sasc_asc _ Hs) as Ha.
  destruct (Nat.eq_dec (k + 1) (length xp)) as [Hlast|Hnl].
  - assert (Hx : rnth xp k = last0 xp) by (rewrite last0_rnth; f_equal; lia).
    exists (nth k rows []). unfold axis_corners, frac_n.
    rewrite (enclosing_last xp _ Ha ltac:(lia) Hx). cbn [fst snd].
    rewrite (frac_last xp _ _ false false Ha Hx). cbn [option_map]. rewrite rint_0.
    replace (length xp - 1)%nat with k by lia. reflexivity.
  - assert (Hi : (k + 1 < length xp)%nat) by lia.
    assert (Hx : rnth xp k <= rnth xp k < rnth xp (k + 1)) by (split; [lra|apply Hs; lia]).
    exists (nth (k + 1) rows []). rewrite (axis_corners_between_nearest xp rows _ k Ha Hi Hx).
    unfold tfrac. replace (rnth xp k - rnth xp k) with 0 by ring.
    replace (0 / (rnth xp (k + 1) - rnth xp k)) with 0 by (unfold Rdiv; ring).
    rewrite rint_0. reflexivity.
Qed.

Lemma node_corners_eq : forall r0 r1 r2 np,
  interp_corners [mkc (Some (1 - 0)) r0; mkc (Some 0) r1] np
  = interp_corners [mkc (Some (1 - 0)) r0; mkc (Some 0) r2] np.
Proof.
  intros. unfold interp_corners. rewrite !wsum2, !cmask_some.
  destruct (Rgt_dec 0 0); [lra|].
  apply map_ext. intros j. rewrite !vsum2, !cmask_some.
  destruct (Rgt_dec 0 0); [lra|]. reflexivity.
Qed.

Lemma nearest_swap : forall a b np,
  interp_corners [mkc (Some (1 - 0)) a; mkc (Some 0) b] np
  = interp_corners [mkc (Some (1 - 1)) b; mkc (Some 1) a] np.
Proof.
  intros. rewrite (interp_corners_swap (mkc (Some (1 - 1)) b)).
  replace (1 - 1) with 0 by ring. replace (1 - 0) with 1 by ring. reflexivity.
Qed.

(* nearest mode on a strictly descending grid = nearest mode on the reversed grid, except at
   exact mid points (where np.rint's tie goes to the first node in storage order) *)
Lemma interp_descending_nearest : forall xp rows x np, sdesc xp -> (2 <= length xp)%nat ->
  length rows = length xp ->
  (forall i, (i + 1 < length xp)%nat -> x <> (rnth xp i + rnth xp (i + 1)) / 2) ->
  interp_axis1 xp rows x None true np = interp_axis1 (rev xp) (rev rows) x None true np.
Proof.
  intros xp rows x np Hd Hn Hlen Hmid.
  rewrite (interp_descending_frame xp rows x true np Hd Hn).
  set (c := hd0 xp). set (xp' := map (fun v => c - v) xp).
  pose proof (sdesc_flip_sasc xp Hd) as Hs'. fold c xp' in Hs'.
  pose proof (sdesc_rev_sasc xp Hd) as Hsr.
  pose proof (sasc_asc _ Hs') as Ha'. pose proof (sasc_asc _ Hsr) as Har.
  assert (Ln' : length xp' = length xp) by (unfold xp'; apply map_length).
  assert (Lnr : length (rev xp) = length xp) by apply rev_length.
  set (n := length xp) in *.
  assert (Hhd' : hd0 xp' = 0).
  { rewrite hd0_rnth. unfold xp'. rewrite rnth_map_sub by lia. unfold c. rewrite hd0_rnth. ring. }
  assert (Hlast' : last0 xp' = c - rnth xp (n - 1)).
  { rewrite last0_rnth, Ln'. unfold xp'. rewrite rnth_map_sub by lia. reflexivity. }
  assert (Hhdr : hd0 (rev xp) = rnth xp (n - 1)).
  { rewrite hd0_rnth, rnth_rev by lia. f_equal. lia. }
  assert (Hlastr : last0 (rev xp) = c).
  { rewrite last0_rnth, Lnr, rnth_rev by lia. unfold c. rewrite hd0_rnth. f_equal. lia. }
  destruct (Rlt_dec x (rnth xp (n - 1))) as [Hlow|Hlow].
  { rewrite (interp_outside_none xp' rows (c - x) true np Ha') by (try lia; right; lra).
    rewrite (interp_outside_none (rev xp) (rev rows) x true np Har) by (try lia; left; lra).
    reflexivity. }
  destruct (Rlt_dec c x) as [Hhigh|Hhigh].
  { rewrite (interp_outside_none xp' rows (c - x) true np Ha') by (try lia; left; lra).
    rewrite (interp_outside_none (rev xp) (rev rows) x true np Har) by (try lia; right; lra).
    reflexivity. }
  destruct (Req_dec x c) as [Htop|Htop].
  { assert (E1 : c - x = rnth xp' 0) by (rewrite <- hd0_rnth, Hhd'; lra).
    assert (E2 : x = rnth (rev xp) (n - 1)) by (rewrite <- Lnr at 1; rewrite <- last0_rnth, Hlastr; exact Htop).
    rewrite E1. rewrite E2. unfold interp_axis1.
    destruct (axis_corners_node_nearest xp' rows 0 Hs' ltac:(lia)) as [r1 F1].
    destruct (axis_corners_node_nearest (rev xp) (rev rows) (n - 1) Hsr ltac:(lia)) as [r2 F2].
    rewrite F1, F2. rewrite nth_rev_rows by lia.
    replace (length rows - 1 - (n - 1))%nat with 0%nat by lia. apply node_corners_eq. }
  destruct (bracket_exists (rev xp) x Hsr ltac:(lia) ltac:(rewrite Hhdr, Hlastr; lra)) as [k [Hk Hx]].
  rewrite Lnr in Hk. rewrite !rnth_rev in Hx by lia. fold n in Hx.
  set (i := (n - 2 - k)%nat).
  assert (Ei1 : (n - 1 - k)%nat = (i + 1)%nat) by (unfold i; lia).
  assert (Ei0 : (n - 1 - (k + 1))%nat = i) by (unfold i; lia).
  rewrite Ei1, Ei0 in Hx.
  assert (Hi : (i + 1 < n)%nat) by (unfold i; lia).
  destruct (Req_dec x (rnth xp (i + 1))) as [Hnode|Hnn].
  { assert (E1 : c - x = rnth xp' (i + 1)) by (unfold xp'; rewrite rnth_map_sub by lia; lra).
    assert (E2 : x = rnth (rev xp) k) by (rewrite rnth_rev by lia; fold n; rewrite Ei1; exact Hnode).
    rewrite E1. rewrite E2. unfold interp_axis1.
    destruct (axis_corners_node_nearest xp' rows (i + 1) Hs' ltac:(lia)) as [r1 F1].
    destruct (axis_corners_node_nearest (rev xp) (rev rows) k Hsr ltac:(lia)) as [r2 F2].
    rewrite F1, F2. rewrite nth_rev_rows by lia. rewrite Hlen. fold n. rewrite Ei1. apply node_corners_eq. }
  assert (Hx' : rnth xp' i <= c - x < rnth xp' (i + 1)).
  { unfold xp'. rewrite !rnth_map_sub by lia. lra. }
  assert (Hxr : rnth (rev xp) k <= x < rnth (rev xp) (k + 1)).
  { rewrite !rnth_rev by lia. fold n. rewrite Ei1, Ei0. lra. }
  unfold interp_axis1.
  rewrite (axis_corners_between_nearest xp' rows (c - x) i Ha' ltac:(lia) Hx').
  rewrite (axis_corners_between_nearest (rev xp) (rev rows) x k Har ltac:(lia) Hxr).
  rewrite !nth_rev_rows by lia. rewrite Hlen. fold n. rewrite Ei1, Ei0.
  assert (Et : tfrac (rev xp) x k = 1 - tfrac xp' (c - x) i).
  { unfold tfrac. rewrite !rnth_rev by lia. fold n. rewrite Ei1, Ei0.
    unfold xp'. rewrite !rnth_map_sub by lia. field. lra. }
  pose proof (tfrac_bounds xp' (c - x) i Hx') as Hb.
  set (t' := tfrac xp' (c - x) i) in *.
  assert (Hne : t' <> 1 / 2).
  { intros Hh. apply (Hmid i Hi). unfold t', tfrac, xp' in Hh. rewrite !rnth_map_sub in Hh by lia.
    assert (Hden : rnth xp i - rnth xp (i + 1) <> 0) by lra.
    assert (Hh2 : (c - x - (c - rnth xp i)) = (1 / 2) * (c - rnth xp (i + 1) - (c - rnth xp i))).
    { apply (Rmult_eq_reg_r (/ (c - rnth xp (i + 1) - (c - rnth xp i)))).
      - unfold Rdiv in Hh. rewrite Hh. field. lra.
      - apply Rinv_neq_0_compat. lra. }
    lra. }
  rewrite Et.
  destruct (Rlt_dec t' (1 / 2)) as [Hlt|Hge].
  - rewrite (rint_lo t') by lra. rewrite (rint_hi (1 - t')).
    + apply nearest_swap.
    + destruct (Req_dec t' 0) as [Hz|Hz]; [|lra].
      (* t' = 0 would make x a node, excluded above *)
      exfalso. apply Hnn. unfold t', tfrac, xp' in Hz. rewrite !rnth_map_sub in Hz by lia.
      assert (c - x - (c - rnth xp i) = 0).
      { apply (Rmult_eq_reg_r (/ (c - rnth xp (i + 1) - (c - rnth xp i)))).
        - unfold Rdiv in Hz. rewrite Hz. ring.
        - apply Rinv_neq_0_compat. lra. }
      lra.
  - rewrite (rint_hi t') by lra. rewrite (rint_lo (1 - t')) by lra.
    symmetry. apply nearest_swap.
Qed.
