(* The request (get) and every other operation preserve the invariant; hence it holds after
   every history. *)
From Coq Require Import ZArith List Bool Arith Lia Permutation.
From OSU.Model Require Import FileCache.
From OSU.Proofs Require Import FileCacheBase FileCacheInv.
Import ListNotations.
Open Scope Z_scope.

Ltac splits := repeat match goal with |- _ /\ _ => split end.

(* ------------------------------------------------------------------ *)
(* small frame facts                                                    *)
(* ------------------------------------------------------------------ *)
Lemma W_tick s : W s -> W (tick s).
Proof.
  intros H. destruct H as [K1 K2 K3 K4 K5 K6 K7 K8].
  constructor; cbn [disk entries clock maxb tick]; try assumption; try lia.
  intros n f Hf. specialize (K4 n f Hf). lia.
Qed.

Lemma entries_are_cache s n : W s -> In n (entries s) -> is_cache_name n = true.
Proof. intros H Hn. now apply (w_entries_on_disk s H). Qed.

Lemma tmp_not_entry s r k : W s -> ~ In (TName r k) (entries s).
Proof. intros H Hn. apply (entries_are_cache s _ H) in Hn. discriminate. Qed.

Lemma fsize_dupd_other d n m f : m <> n -> fsize (dupd d n f) m = fsize d m.
Proof. intros H. unfold fsize. now rewrite dfind_dupd_other. Qed.

Lemma fsize_ddel_other d n m : m <> n -> fsize (ddel d n) m = fsize d m.
Proof. intros H. unfold fsize. now rewrite dfind_ddel_other. Qed.

(* touching a file (same content, new time) *)
Definition touch_state (s : state) (n : name) (f : file) (t : Z) : state :=
  tick (set_disk s (dupd (disk s) n (mkfile (fcontent f) t))).

Lemma W_touch s n f t :
  W s -> dfind (disk s) n = Some f -> (t = clock s \/ t = - clock s) -> W (touch_state s n f t).
Proof.
  intros H Hf Ht. unfold touch_state. apply W_write; cbn [ftime fcontent]; try assumption.
  - intros Hc. now apply (w_complete s H n f).
  - intros r k ->. now apply (w_owner s H r k f).
Qed.

Lemma touch_fsize s n f t m : dfind (disk s) n = Some f -> fsize (disk (touch_state s n f t)) m = fsize (disk s) m.
Proof.
  intros Hf. unfold touch_state. cbn [disk tick set_disk].
  destruct (name_eqb_spec m n) as [->|Hne].
  - unfold fsize. rewrite dfind_dupd_same, Hf. reflexivity.
  - now apply fsize_dupd_other.
Qed.

Lemma touch_dexists s n f t m : dfind (disk s) n = Some f ->
  dexists (disk (touch_state s n f t)) m = dexists (disk s) m.
Proof.
  intros Hf. unfold touch_state. cbn [disk tick set_disk]. unfold dexists.
  destruct (name_eqb_spec m n) as [->|Hne].
  - now rewrite dfind_dupd_same, Hf.
  - now rewrite dfind_dupd_other.
Qed.

Lemma covered_touch s n f t : covered s -> dfind (disk s) n = Some f -> covered (touch_state s n f t).
Proof.
  intros H Hf m Hc He. rewrite touch_dexists in He by assumption. now apply H.
Qed.

Lemma size_touch s n f t : dfind (disk s) n = Some f -> cache_size (touch_state s n f t) = cache_size s.
Proof.
  intros Hf. unfold cache_size. change (entries (touch_state s n f t)) with (entries s).
  apply total_size_ext. intros m _. now apply touch_fsize.
Qed.

Lemma size_remove_item s n : W s -> cache_size (remove_item s n) <= cache_size s.
Proof.
  intros H. unfold remove_item. destruct (mem n (entries s)) eqn:E; [|lia].
  apply mem_true in E. unfold cache_size. cbn [disk entries set_disk set_entries].
  rewrite (total_size_remove (disk s) n (entries s) (w_entries s H) E).
  rewrite (total_size_ext (ddel (disk s) n) (disk s)).
  - pose proof (fsize_nonneg (disk s) n). lia.
  - intros m Hm. apply in_remove_name in Hm. apply fsize_ddel_other. tauto.
Qed.

(* ------------------------------------------------------------------ *)
(* phase A: classification of the request (with the touch of hits)      *)
(* ------------------------------------------------------------------ *)
Lemma classify_props l : forall s s1 ms,
  W s -> classify s l = Some (s1, ms) ->
  W s1 /\ (covered s -> covered s1) /\ cache_size s1 <= cache_size s /\
  maxb s1 = maxb s /\ alive s1 = alive s /\ clock s <= clock s1 /\
  incl ms l /\
  (forall n, In n (entries s1) -> In n (entries s)) /\
  (forall q, In q ms -> ~ In (q_name q) (entries s1)).
Proof.
  induction l as [|q l IH]; intros s s1 ms HW H; cbn [classify] in H.
  - injection H as <- <-. split; [assumption|]. split; [tauto|]. split; [lia|]. split; [reflexivity|].
    split; [reflexivity|]. split; [lia|]. split; [apply incl_refl|]. split; [tauto|]. intros q [].
  - set (n := q_name q) in *.
    (* the two continuations *)
    assert (Hmiss : forall s0, W s0 -> (forall x, In x (entries s0) -> In x (entries s)) ->
              ~ In n (entries s0) ->
              (covered s -> covered s0) -> cache_size s0 <= cache_size s -> maxb s0 = maxb s ->
              alive s0 = alive s -> clock s <= clock s0 ->
              match classify s0 l with Some (s2, ms0) => Some (s2, q :: ms0) | None => None end = Some (s1, ms) ->
              W s1 /\ (covered s -> covered s1) /\ cache_size s1 <= cache_size s /\
              maxb s1 = maxb s /\ alive s1 = alive s /\ clock s <= clock s1 /\ incl ms (q :: l) /\
              (forall n, In n (entries s1) -> In n (entries s)) /\
              (forall q', In q' ms -> ~ In (q_name q') (entries s1))).
    { intros s0 HW0 Hsub Hnot Hcov Hsz Hmx Hal Hck Hc.
      destruct (classify s0 l) as [[s2 ms0]|] eqn:E; [|discriminate]. injection Hc as <- <-.
      destruct (IH _ _ _ HW0 E) as [A [B [Cc [D [E' [F [G [Hs Hm]]]]]]]].
      split; [assumption|]. split; [tauto|]. split; [lia|]. split; [congruence|]. split; [congruence|].
      split; [lia|]. split; [|split].
      - intros x [<-|Hx]; [now left | right; now apply G].
      - intros x Hx. apply Hsub. now apply Hs.
      - intros q' [<-|Hq']; [|now apply Hm]. intros Hin. apply Hnot. now apply Hs. }
    destruct (mem n (entries s)) eqn:Em.
    + assert (Hhit :
        match dfind (disk s) n with
        | None => None
        | Some f => match classify (tick (set_disk s (dupd (disk s) n (mkfile (fcontent f) (clock s))))) l with
                    | Some (s2, ms0) => Some (s2, ms0) | None => None end
        end = Some (s1, ms) ->
        W s1 /\ (covered s -> covered s1) /\ cache_size s1 <= cache_size s /\
        maxb s1 = maxb s /\ alive s1 = alive s /\ clock s <= clock s1 /\ incl ms (q :: l) /\
        (forall n, In n (entries s1) -> In n (entries s)) /\
        (forall q', In q' ms -> ~ In (q_name q') (entries s1))).
      { intros Hc. destruct (dfind (disk s) n) as [f|] eqn:Ef; [|discriminate].
        fold (touch_state s n f (clock s)) in Hc.
        destruct (classify (touch_state s n f (clock s)) l) as [[s2 ms0]|] eqn:E; [|discriminate].
        injection Hc as <- <-.
        assert (HW0 : W (touch_state s n f (clock s))) by (apply W_touch; auto).
        destruct (IH _ _ _ HW0 E) as [A [B [Cc [D [E' [F [G [Hs Hm]]]]]]]].
        rewrite size_touch in Cc by assumption.
        split; [assumption|]. split; [|split; [assumption|split; [assumption|split; [assumption|split; [|split; [|split; assumption]]]]]].
        - intros Hcov. apply B. now apply covered_touch.
        - cbn in F. lia.
        - intros x Hx. right. now apply G. }
      destruct (q_validate q) as [[ | | ]|]; try (exact (Hhit H)).
      * apply (Hmiss (remove_item s n)); try assumption.
        -- now apply W_remove_item.
        -- intros x Hx. unfold remove_item in Hx. rewrite Em in Hx. cbn in Hx. apply in_remove_name in Hx. tauto.
        -- unfold remove_item. rewrite Em. cbn. intros Hx. apply in_remove_name in Hx. tauto.
        -- apply covered_remove_item.
        -- now apply size_remove_item.
        -- apply remove_item_maxb.
        -- apply remove_item_alive.
        -- rewrite remove_item_clock. lia.
      * apply (Hmiss (remove_item s n)); try assumption.
        -- now apply W_remove_item.
        -- intros x Hx. unfold remove_item in Hx. rewrite Em in Hx. cbn in Hx. apply in_remove_name in Hx. tauto.
        -- unfold remove_item. rewrite Em. cbn. intros Hx. apply in_remove_name in Hx. tauto.
        -- apply covered_remove_item.
        -- now apply size_remove_item.
        -- apply remove_item_maxb.
        -- apply remove_item_alive.
        -- rewrite remove_item_clock. lia.
    + apply (Hmiss s); try assumption; try tauto; try lia.
      now apply mem_false.
Qed.

(* ------------------------------------------------------------------ *)
(* phase B: one worker, then the sequential download loop               *)
(* ------------------------------------------------------------------ *)
Lemma worker_props s q s' r c :
  W s -> worker s q = (s', r, c) ->
  W s' /\ entries s' = entries s /\ maxb s' = maxb s /\ alive s' = alive s /\ clock s <= clock s' /\
  (forall n, is_cache_name n = true -> dexists (disk s') n = true ->
             dexists (disk s) n = true \/ (n = q_name q /\ r = Some true)) /\
  (forall n, is_cache_name n = true -> dexists (disk s) n = true -> dexists (disk s') n = true) /\
  (forall n, n <> q_name q -> n <> q_tmp q -> dfind (disk s') n = dfind (disk s) n) /\
  (forall n, In n (entries s) -> n <> q_name q -> fsize (disk s') n = fsize (disk s) n) /\
  (r = Some true -> dexists (disk s') (q_name q) = true).
Proof.
  intros HW H. unfold worker in H.
  set (s0 := log_fetch s (q_res q)) in *.
  assert (HW0 : W s0) by now apply W_log_fetch.
  set (cleaned := set_disk s0 (ddel (disk s0) (q_tmp q))) in *.
  assert (HWc : W cleaned) by (apply W_delete; [assumption | apply tmp_not_entry; assumption]).
  assert (Hclean : forall r0 c0, r0 <> Some true -> (cleaned, r0, c0) = (s', r, c) ->
            W s' /\ entries s' = entries s /\ maxb s' = maxb s /\ alive s' = alive s /\ clock s <= clock s' /\
            (forall n, is_cache_name n = true -> dexists (disk s') n = true ->
                       dexists (disk s) n = true \/ (n = q_name q /\ r = Some true)) /\
            (forall n, is_cache_name n = true -> dexists (disk s) n = true -> dexists (disk s') n = true) /\
            (forall n, n <> q_name q -> n <> q_tmp q -> dfind (disk s') n = dfind (disk s) n) /\
            (forall n, In n (entries s) -> n <> q_name q -> fsize (disk s') n = fsize (disk s) n) /\
            (r = Some true -> dexists (disk s') (q_name q) = true)).
  { intros r0 c0 Hr E. injection E as <- <- <-.
    splits; try assumption; try reflexivity; unfold cleaned, s0; cbn [disk entries maxb alive clock set_disk log_fetch]; try lia.
    - intros n Hc He. left. apply dexists_true in He. destruct He as [f Hf].
      destruct (name_eqb_spec n (q_tmp q)) as [->|Hne]; [discriminate|].
      rewrite dfind_ddel_other in Hf by assumption. apply dexists_true. eauto.
    - intros n Hc He. apply dexists_true in He. destruct He as [f Hf]. apply dexists_true. exists f.
      rewrite dfind_ddel_other; [assumption|]. intros ->. discriminate.
    - intros n _ Hn. now apply dfind_ddel_other.
    - intros n Hn _. apply fsize_ddel_other. intros ->. now apply (tmp_not_entry s _ _ HW) in Hn.
    - intros E. contradiction. }
  assert (Hstore : forall cnt, is_complete cnt = true -> content_res cnt = Some (q_res q) ->
            (tick (set_disk s0 (dupd (ddel (disk s0) (q_tmp q)) (q_name q) (mkfile cnt (clock s0)))), Some true, false) = (s', r, c) ->
            W s' /\ entries s' = entries s /\ maxb s' = maxb s /\ alive s' = alive s /\ clock s <= clock s' /\
            (forall n, is_cache_name n = true -> dexists (disk s') n = true ->
                       dexists (disk s) n = true \/ (n = q_name q /\ r = Some true)) /\
            (forall n, is_cache_name n = true -> dexists (disk s) n = true -> dexists (disk s') n = true) /\
            (forall n, n <> q_name q -> n <> q_tmp q -> dfind (disk s') n = dfind (disk s) n) /\
            (forall n, In n (entries s) -> n <> q_name q -> fsize (disk s') n = fsize (disk s) n) /\
            (r = Some true -> dexists (disk s') (q_name q) = true)).
  { intros cnt Hcomp Hres E. injection E as <- <- <-.
    split; [|splits]; try reflexivity; cbn [clock tick set_disk]; try (cbn; lia).
    - apply (W_write cleaned (q_name q) (mkfile cnt (clock s0))); cbn [ftime fcontent]; try assumption; [left; reflexivity | tauto |].
      intros r0 k0 E. unfold q_name in E. injection E as <- <-. assumption.
    - intros n Hc He. unfold s0; cbn [disk tick set_disk log_fetch] in He.
      destruct (name_eqb_spec n (q_name q)) as [->|Hne]; [right; split; reflexivity|]. left.
      apply dexists_true in He. destruct He as [f Hf]. rewrite dfind_dupd_other in Hf by assumption.
      destruct (name_eqb_spec n (q_tmp q)) as [->|Hne2]; [discriminate|].
      rewrite dfind_ddel_other in Hf by assumption. apply dexists_true. eauto.
    - intros n Hc He. unfold s0; cbn [disk tick set_disk log_fetch].
      apply dexists_true. destruct (name_eqb_spec n (q_name q)) as [->|Hne].
      + eexists. apply dfind_dupd_same.
      + rewrite dfind_dupd_other by assumption. apply dexists_true in He. destruct He as [f Hf]. exists f.
        rewrite dfind_ddel_other; [assumption|]. intros ->. discriminate.
    - intros n H1 H2. unfold s0; cbn [disk tick set_disk log_fetch].
      rewrite dfind_dupd_other by assumption. now apply dfind_ddel_other.
    - intros n Hn Hne. unfold s0; cbn [disk tick set_disk log_fetch].
      rewrite fsize_dupd_other by assumption. apply fsize_ddel_other.
      intros ->. now apply (tmp_not_entry s _ _ HW) in Hn.
    - intros _. unfold s0; cbn [disk tick set_disk log_fetch]. apply dexists_true. eexists. apply dfind_dupd_same. }
  destruct (q_out q) as [v| | |v|v].
  - destruct (q_post q) as [[|]|].
    + apply (Hstore (Post (q_res q) v)); [reflexivity | reflexivity | exact H].
    + apply (Hclean None false); [discriminate | exact H].
    + apply (Hstore (Full (q_res q) v)); [reflexivity | reflexivity | exact H].
  - destruct (allow s0); [apply (Hclean (Some false) false) | apply (Hclean None false)]; try discriminate; exact H.
  - apply (Hclean None false); [discriminate | exact H].
  - apply (Hclean None false); [discriminate | exact H].
  - (* the process dies with a partial temporary file *)
    clear Hstore Hclean. injection H as <- <- <-.
    split; [|splits]; try reflexivity; cbn [clock tick set_disk]; try (cbn; lia).
    + apply (W_write s0 (q_tmp q) (mkfile (Half (q_res q) v) (clock s0))); cbn [ftime fcontent]; try assumption; [left; reflexivity | discriminate | discriminate].
    + intros n Hc He. left. unfold s0; cbn [disk tick set_disk log_fetch] in He.
      apply dexists_true in He. destruct He as [f Hf].
      destruct (name_eqb_spec n (q_tmp q)) as [->|Hne]; [discriminate|].
      rewrite dfind_dupd_other in Hf by assumption. apply dexists_true. eauto.
    + intros n Hc He. unfold s0; cbn [disk tick set_disk log_fetch]. apply dexists_true.
      apply dexists_true in He. destruct He as [f Hf]. exists f.
      rewrite dfind_dupd_other; [assumption|]. intros ->. discriminate.
    + intros n _ Hn. unfold s0; cbn [disk tick set_disk log_fetch]. now apply dfind_dupd_other.
    + intros n Hn _. unfold s0; cbn [disk tick set_disk log_fetch]. apply fsize_dupd_other.
      intros ->. now apply (tmp_not_entry s _ _ HW) in Hn.
    + discriminate.
Qed.

Lemma download_props ms : forall s s' bs st,
  W s -> download s ms = (s', bs, st) ->
  W s' /\ entries s' = entries s /\ maxb s' = maxb s /\ alive s' = alive s /\ clock s <= clock s' /\
  (forall n, is_cache_name n = true -> dexists (disk s') n = true ->
             dexists (disk s) n = true \/ exists q, In (q, true) (combine ms bs) /\ q_name q = n) /\
  (forall n, is_cache_name n = true -> dexists (disk s) n = true -> dexists (disk s') n = true) /\
  (forall q b, In (q, b) (combine ms bs) -> b = true -> dexists (disk s') (q_name q) = true) /\
  (forall n, (forall q, In q ms -> n <> q_name q /\ n <> q_tmp q) -> dfind (disk s') n = dfind (disk s) n) /\
  (st = DlOk -> length bs = length ms).
Proof.
  induction ms as [|q ms IH]; intros s s' bs st HW H; cbn [download] in H.
  - injection H as <- <- <-. splits; try assumption; try lia; try tauto.
    intros q b [].
  - destruct (worker s q) as [[s1 r] c] eqn:Ew.
    destruct (worker_props _ _ _ _ _ HW Ew) as [W1 [E1 [M1 [A1 [C1 [F1 [K1 [D1 [_ X1]]]]]]]]].
    destruct r as [b|].
    + destruct (download s1 ms) as [[s2 bs2] st2] eqn:Ed. injection H as <- <- <-.
      destruct (IH _ _ _ _ W1 Ed) as [W2 [E2 [M2 [A2 [C2 [F2 [K2 [R2 [D2 L2]]]]]]]]].
      splits; try assumption; try congruence; try lia.
      * intros n Hc He. destruct (F2 n Hc He) as [Hx|[q' [Hq' Hn]]].
        -- destruct (F1 n Hc Hx) as [Hy|[-> Hb]]; [left; assumption|].
           injection Hb as ->. right. exists q. split; [left; reflexivity | reflexivity].
        -- right. exists q'. split; [right; assumption | assumption].
      * intros n Hc He. apply K2; [assumption|]. now apply K1.
      * intros q' b' [E|Hin] Hb.
        -- injection E as <- <-. subst b. apply K2; [reflexivity|]. now apply X1.
        -- now apply (R2 q' b').
      * intros n Hn. rewrite D2 by (intros q' Hq'; apply Hn; now right).
        apply D1; apply Hn; now left.
      * intros Hst. cbn [length]. f_equal. now apply L2.
    + destruct c; injection H as <- <- <-; splits; try assumption; try lia; try discriminate.
      * intros n Hc He. destruct (F1 n Hc He) as [Hy|[_ Hb]]; [left; assumption | discriminate].
      * intros q' b' [].
      * intros n Hn. apply D1; apply Hn; now left.
      * intros n Hc He. destruct (F1 n Hc He) as [Hy|[_ Hb]]; [left; assumption | discriminate].
      * intros q' b' [].
      * intros n Hn. apply D1; apply Hn; now left.
Qed.

(* ---- the specification shared by the sequential loop and the chunked parallel one ---- *)
Definition dl_spec (s : state) (ms : list req) (s' : state) (bs : list bool) (st : dl_status) : Prop :=
  W s' /\ entries s' = entries s /\ maxb s' = maxb s /\ alive s' = alive s /\ clock s <= clock s' /\
  (forall n, is_cache_name n = true -> dexists (disk s') n = true ->
             dexists (disk s) n = true \/
             exists q, In q ms /\ q_name q = n /\ (st = DlOk -> In (q, true) (combine ms bs))) /\
  (forall n, is_cache_name n = true -> dexists (disk s) n = true -> dexists (disk s') n = true) /\
  (st = DlOk -> forall q b, In (q, b) (combine ms bs) -> b = true -> dexists (disk s') (q_name q) = true) /\
  (forall n, (forall q, In q ms -> n <> q_name q /\ n <> q_tmp q) -> dfind (disk s') n = dfind (disk s) n) /\
  (st = DlOk -> length bs = length ms).

Lemma download_spec s ms s' bs st : W s -> download s ms = (s', bs, st) -> dl_spec s ms s' bs st.
Proof.
  intros HW H. destruct (download_props _ _ _ _ _ HW H) as [W2 [E2 [M2 [A2 [C2 [F2 [K2 [R2 [D2 L2]]]]]]]]].
  unfold dl_spec. splits; try assumption.
  - intros n Hc He. destruct (F2 n Hc He) as [Hx|[q [Hq Hn]]]; [left; assumption|].
    right. exists q. split; [now apply in_combine_l in Hq|]. split; [assumption | intros _; assumption].
  - intros _. exact R2.
Qed.

Lemma combine_app_eq {A B} (l1 l2 : list A) (b1 b2 : list B) :
  length b1 = length l1 -> combine (l1 ++ l2) (b1 ++ b2) = combine l1 b1 ++ combine l2 b2.
Proof.
  revert b1. induction l1 as [|x l1 IH]; intros [|y b1] H; cbn in *; try discriminate; [reflexivity|].
  f_equal. apply IH. lia.
Qed.

Lemma merge_ok a b : merge_status a b = DlOk -> a = DlOk /\ b = DlOk.
Proof. destruct a, b; cbn; intros H; try discriminate; split; reflexivity. Qed.

Lemma download_chunks_spec cs : forall s s' bs st,
  W s -> download_chunks s cs = (s', bs, st) -> dl_spec s (concat cs) s' bs st.
Proof.
  induction cs as [|c cs IH]; intros s s' bs st HW H; cbn [download_chunks concat] in *.
  - injection H as <- <- <-. unfold dl_spec. splits; try assumption; try reflexivity; try lia.
    + intros n _ He. now left.
    + intros n _ He. exact He.
    + intros _ q b [].
  - destruct (download s c) as [[s1 bs1] st1] eqn:E1.
    destruct (download_chunks s1 cs) as [[s2 bs2] st2] eqn:E2. injection H as <- <- <-.
    destruct (download_spec _ _ _ _ _ HW E1) as [W1 [En1 [M1 [A1 [C1 [F1 [K1 [R1 [D1 L1]]]]]]]]].
    destruct (IH _ _ _ _ W1 E2) as [W2 [En2 [M2 [A2 [C2 [F2 [K2 [R2 [D2 L2]]]]]]]]].
    unfold dl_spec. splits; try assumption; try congruence; try lia.
    + intros n Hc He. destruct (F2 n Hc He) as [Hx|[q [Hq [Hn Hok]]]].
      * destruct (F1 n Hc Hx) as [Hy|[q [Hq [Hn Hok]]]]; [left; assumption|].
        right. exists q. split; [apply in_or_app; now left|]. split; [assumption|].
        intros Hm. apply merge_ok in Hm. destruct Hm as [-> ->].
        rewrite combine_app_eq by now apply L1. apply in_or_app. left. now apply Hok.
      * right. exists q. split; [apply in_or_app; now right|]. split; [assumption|].
        intros Hm. apply merge_ok in Hm. destruct Hm as [-> ->].
        rewrite combine_app_eq by now apply L1. apply in_or_app. right. now apply Hok.
    + intros n Hc He. apply K2; [assumption|]. now apply K1.
    + intros Hm q b Hin Hb. apply merge_ok in Hm. destruct Hm as [-> ->].
      rewrite combine_app_eq in Hin by now apply L1. apply in_app_or in Hin. destruct Hin as [Hin|Hin].
      * apply K2; [reflexivity|]. now apply (R1 eq_refl q b).
      * now apply (R2 eq_refl q b).
    + intros n Hn. rewrite D2 by (intros q Hq; apply Hn; apply in_or_app; now right).
      apply D1. intros q Hq. apply Hn. apply in_or_app. now left.
    + intros Hm. apply merge_ok in Hm. destruct Hm as [-> ->]. rewrite !app_length, L1, L2 by reflexivity. reflexivity.
Qed.

Lemma concat_chunks_of fuel : forall l, (length l <= fuel)%nat -> concat (chunks_of fuel l) = l.
Proof.
  induction fuel as [|fuel IH]; intros l H; cbn [chunks_of].
  - destruct l; [reflexivity | cbn in H; lia].
  - destruct l as [|x l']; [reflexivity|]. cbn [concat]. rewrite IH.
    + apply firstn_skipn.
    + rewrite skipn_length. unfold CHUNK. cbn [length] in *. lia.
Qed.

Lemma download_all_spec s ms s' bs st : W s -> download_all s ms = (s', bs, st) -> dl_spec s ms s' bs st.
Proof.
  intros HW H. unfold download_all in H. destruct (par s && Nat.ltb 1 (length ms)).
  - pose proof (download_chunks_spec _ _ _ _ _ HW H) as Hs.
    rewrite (concat_chunks_of (length ms) ms) in Hs by lia. exact Hs.
  - now apply download_spec.
Qed.

Lemma download_all_nil s : download_all s [] = (s, [], DlOk).
Proof. unfold download_all. cbn [length Nat.ltb Nat.leb]. rewrite andb_false_r. reflexivity. Qed.

Lemma download_all_single s q : download_all s [q] = download s [q].
Proof. unfold download_all. cbn [length Nat.ltb Nat.leb]. rewrite andb_false_r. reflexivity. Qed.

(* ------------------------------------------------------------------ *)
(* registration                                                         *)
(* ------------------------------------------------------------------ *)
Lemma register_props ms : forall s paths bs s' paths',
  W s -> register s paths ms bs = (s', paths') ->
  (forall q b, In (q, b) (combine ms bs) -> b = true -> dexists (disk s) (q_name q) = true) ->
  W s' /\ disk s' = disk s /\ maxb s' = maxb s /\ alive s' = alive s /\ clock s' = clock s /\
  (forall n, In n (entries s') <-> In n (entries s) \/ exists q, In (q, true) (combine ms bs) /\ q_name q = n) /\
  incl paths' paths.
Proof.
  induction ms as [|q ms IH]; intros s paths bs s' paths' HW H Hex; cbn [register] in H.
  - injection H as <- <-. splits; try assumption; try reflexivity.
    + intros n. split; [tauto | intros [Hn|[q0 [Hq _]]]; [assumption | cbn in Hq; contradiction]].
    + apply incl_refl.
  - destruct bs as [|b bs].
    + injection H as <- <-. splits; try assumption; try reflexivity.
      * intros n. split; [tauto | intros [Hn|[q0 [Hq _]]]; [assumption | cbn in Hq; contradiction]].
      * apply incl_refl.
    + destruct b.
      * assert (HW1 : W (set_entries s (add_name (q_name q) (entries s)))).
        { apply W_add_entry; [assumption | reflexivity |]. apply (Hex q true); [left; reflexivity | reflexivity]. }
        destruct (IH _ _ _ _ _ HW1 H) as [W2 [D2 [M2 [A2 [C2 [E2 I2]]]]]].
        { intros q' b' Hin Hb. cbn [disk set_entries]. apply (Hex q' b'); [right; assumption | assumption]. }
        splits; try assumption.
        intros n. rewrite E2. cbn [entries set_entries]. rewrite in_add_name. split.
        -- intros [[Hn| ->]|[q' [Hq' Hn]]]; [left; assumption | right; exists q; split; [left; reflexivity | reflexivity] |
                                             right; exists q'; split; [right; assumption | assumption]].
        -- intros [Hn|[q' [[E|Hq'] Hn]]]; [left; left; assumption | injection E as <-; left; right; congruence |
                                           right; exists q'; split; assumption].
      * destruct (IH _ _ _ _ _ HW H) as [W2 [D2 [M2 [A2 [C2 [E2 I2]]]]]].
        { intros q' b' Hin Hb. apply (Hex q' b'); [right; assumption | assumption]. }
        splits; try assumption.
        -- intros n. rewrite E2. split.
           ++ intros [Hn|[q' [Hq' Hn]]]; [left; assumption | right; exists q'; split; [right; assumption | assumption]].
           ++ intros [Hn|[q' [[E|Hq'] Hn]]]; [left; assumption | discriminate | right; exists q'; split; assumption].
        -- intros x Hx. apply I2 in Hx. clear -Hx. induction paths as [|p paths IHp]; cbn in *; [assumption|].
           destruct (name_eqb p (q_name q)); [right; assumption|]. destruct Hx as [->|Hx]; [left; reflexivity | right; now apply IHp].
Qed.

Lemma register_existing_props ms : forall s,
  W s ->
  W (register_existing s ms) /\ disk (register_existing s ms) = disk s /\
  maxb (register_existing s ms) = maxb s /\ alive (register_existing s ms) = alive s /\
  (forall n, In n (entries (register_existing s ms)) <->
             In n (entries s) \/ exists q, In q ms /\ q_name q = n /\ dexists (disk s) n = true).
Proof.
  induction ms as [|q ms IH]; intros s HW; cbn [register_existing].
  - splits; try assumption; try reflexivity. intros n. split; [tauto | intros [H|[q [[] _]]]; assumption].
  - destruct (dexists (disk s) (q_name q)) eqn:E.
    + assert (HW1 : W (set_entries s (add_name (q_name q) (entries s)))) by (apply W_add_entry; auto).
      destruct (IH _ HW1) as [W2 [D2 [M2 [A2 E2]]]]. splits; try assumption.
      intros n. rewrite E2. cbn [entries disk set_entries]. rewrite in_add_name. split.
      * intros [[Hn| ->]|[q' [Hq' Hn]]]; [left; assumption | right; exists q; splits; [left; reflexivity | reflexivity | assumption] |
                                          right; exists q'; split; [right; tauto | tauto]].
      * intros [Hn|[q' [[<-|Hq'] Hn]]]; [left; left; assumption | left; right; symmetry; tauto | right; exists q'; tauto].
    + destruct (IH _ HW) as [W2 [D2 [M2 [A2 E2]]]]. splits; try assumption.
      intros n. rewrite E2. split.
      * intros [Hn|[q' [Hq' Hn]]]; [left; assumption | right; exists q'; split; [right; tauto | tauto]].
      * intros [Hn|[q' [[<-|Hq'] [Hn He]]]]; [left; assumption | subst n; congruence | right; exists q'; tauto].
Qed.

(* ------------------------------------------------------------------ *)
(* the request                                                          *)
(* ------------------------------------------------------------------ *)
Lemma W_total_size_frame s d' :
  (forall n, In n (entries s) -> fsize d' n = fsize (disk s) n) -> total_size d' (entries s) = cache_size s.
Proof. intros H. unfold cache_size. now apply total_size_ext. Qed.

Theorem get_Inv s l : Inv s -> alive s = true -> Inv (fst (get s l)).
Proof.
  intros [HW HS] Hal. destruct (HS Hal) as [Hcov Hsz]. unfold get.
  destruct (classify s l) as [[s1 ms]|] eqn:Ec; [|split; assumption].
  destruct (classify_props _ _ _ _ HW Ec) as [W1 [Cov1 [Sz1 [Mx1 [Al1 [Ck1 [Inc1 [Sub1 Mis1]]]]]]]].
  destruct (download_all s1 ms) as [[s2 bs] st] eqn:Ed.
  destruct (download_all_spec _ _ _ _ _ W1 Ed) as [W2 [E2 [M2 [A2 [C2 [F2 [K2 [R2 [D2 L2]]]]]]]]].
  destruct st.
  - (* all downloads returned *)
    destruct (register s2 (map q_name l) ms bs) as [s3 paths'] eqn:Er.
    destruct (register_props _ _ _ _ _ _ W2 Er (R2 eq_refl)) as [W3 [D3 [M3 [A3 [C3 [E3 I3]]]]]].
    assert (Cov3 : covered s3).
    { intros n Hc He. rewrite D3 in He. apply E3. destruct (F2 n Hc He) as [Hx|[q [Hq [Hn Hok]]]].
      - left. rewrite E2. now apply (Cov1 Hcov).
      - right. exists q. split; [now apply Hok | assumption]. }
    set (s4 := if total_size (disk s3) paths' >? maxb s3 then set_maxb s3 (total_size (disk s3) paths' + MEGABYTE) else s3).
    assert (W4 : W s4).
    { unfold s4. destruct (_ >? _); [|assumption]. apply W_set_maxb; [assumption|].
      pose proof (total_size_nonneg (disk s3) paths'). unfold MEGABYTE. lia. }
    assert (Cov4 : covered s4) by (unfold s4; destruct (_ >? _); assumption).
    assert (Mx4 : maxb s3 <= maxb s4).
    { unfold s4. destruct (Z.gtb_spec (total_size (disk s3) paths') (maxb s3)); cbn; unfold MEGABYTE; lia. }
    cbn [fst]. destruct ms as [|q0 ms0].
    + (* only hits: nothing downloaded, nothing evicted *)
      rewrite download_all_nil in Ed. injection Ed as <- <- . cbn in Er. injection Er as <- <-.
      split; [assumption|]. intros _. split; [assumption|].
      assert (cache_size s4 = cache_size s1) as -> by (unfold s4; destruct (_ >? _); reflexivity). lia.
    + apply evict_Inv; assumption.
  - (* a download raised: register what completed, evict, re-raise *)
    cbn [fst]. destruct (register_existing_props ms s2 W2) as [W3 [D3 [M3 [A3 E3]]]].
    apply evict_Inv; [assumption|].
    intros n Hc He. rewrite D3 in He. apply E3.
    destruct (F2 n Hc He) as [Hx|[q [Hq [Hn _]]]].
    + left. rewrite E2. now apply (Cov1 Hcov).
    + right. exists q. split; [assumption | split; assumption].
  - (* the process died *)
    cbn [fst]. split; [now apply W_set_alive|]. intros Hx. cbn in Hx. discriminate.
Qed.
