(* The stencil functions as regenerated from the Python source (Generated/StencilProg.v, run by
   the interpreter of Model/PyKernel.v) compute the same rationals as the hand-written model,
   for every order 1..8 and every number of implicit points; hence the theorems about the model
   are theorems about what the current source says. *)
From Coq Require Import QArith ZArith List String Bool Arith Lia.
From OSU.Model Require Import PyKernel TimeIntegration.
From OSU.Generated Require Import StencilProg.
From OSU.Proofs Require Import TimeIntegration.
Import ListNotations.
Open Scope string_scope.

Definition gen_stencil (o n : nat) : option (list Q) :=
  call_arr stencil_prog "integration_stencil" [Z.of_nat o; Z.of_nat n].

Fixpoint qlist_eqb (a b : list Q) : bool :=
  match a, b with
  | [], [] => true
  | x :: a', y :: b' => Qeq_bool x y && qlist_eqb a' b'
  | _, _ => false
  end.

Lemma qlist_eqb_spec a : forall b, qlist_eqb a b = true -> Forall2 Qeq a b.
Proof.
  induction a as [|x a IH]; intros [|y b] H; cbn in H; try discriminate; [constructor|].
  apply andb_true_iff in H. destruct H as [H1 H2]. constructor; [now apply Qeq_bool_eq | now apply IH].
Qed.

Definition gen_ok (on : nat * nat) : bool :=
  match gen_stencil (fst on) (snd on) with
  | Some l => qlist_eqb l (stencil (fst on) (snd on))
  | None => false
  end.

Lemma gen_table : forallb gen_ok pairs = true.
Proof. vm_compute. reflexivity. Qed.

Lemma gen_ok_spec on : gen_ok on = true ->
  exists l, gen_stencil (fst on) (snd on) = Some l /\ Forall2 Qeq l (stencil (fst on) (snd on)).
Proof.
  unfold gen_ok. destruct (gen_stencil (fst on) (snd on)) as [l|]; [|discriminate].
  intros H. exists l. split; [reflexivity | now apply qlist_eqb_spec].
Qed.

Lemma generated_stencil_is_model o n :
  (1 <= o <= 8)%nat -> (1 <= n <= o)%nat ->
  exists l, gen_stencil o n = Some l /\ Forall2 Qeq l (stencil o n).
Proof.
  intros Ho Hn.
  exact (gen_ok_spec (o, n) (proj1 (forallb_forall gen_ok pairs) gen_table (o, n) (in_pairs o n Ho Hn))).
Qed.

Lemma qsum_compat a b : Forall2 Qeq a b -> (qsum a == qsum b)%Q.
Proof. induction 1 as [|x y a b Hxy _ IH]; cbn; [reflexivity|]. now rewrite Hxy, IH. Qed.

Lemma momQ_aux_compat a b : Forall2 Qeq a b -> forall o n i d, (momQ_aux a o n i d == momQ_aux b o n i d)%Q.
Proof.
  induction 1 as [|x y a b Hxy _ IH]; intros o n i d; cbn [momQ_aux]; [reflexivity|].
  now rewrite Hxy, IH.
Qed.

(* what the current source computes: weights that sum to one ... *)
Lemma generated_sum_one o n :
  (1 <= o <= 8)%nat -> (1 <= n <= o)%nat ->
  exists l, gen_stencil o n = Some l /\ (qsum l == 1)%Q.
Proof.
  intros Ho Hn. destruct (generated_stencil_is_model o n Ho Hn) as [l [Hl Heq]].
  exists l. split; [assumption|]. rewrite (qsum_compat _ _ Heq). now apply stencil_sum_one.
Qed.

(* ... and are exact on every monomial of degree below the order *)
Lemma generated_exact_monomial o n d :
  (1 <= o <= 8)%nat -> (1 <= n <= o)%nat -> (d < o)%nat ->
  exists l, gen_stencil o n = Some l /\ (momQ_aux l o n 0 d == targetQ d)%Q.
Proof.
  intros Ho Hn Hd. destruct (generated_stencil_is_model o n Ho Hn) as [l [Hl Heq]].
  exists l. split; [assumption|]. rewrite (momQ_aux_compat _ _ Heq). now apply stencil_exact_monomial.
Qed.
