(* Proofs about Model/Stress.v and the rotation laws (C09) *)
From Coq Require Import Reals List Arith ZArith Lia Lra.
From OSU.Lib Require Import SrcAuxDefs SrcAuxLemmas.
From OSU.Model Require Import SourceTerms Stress.
From OSU.Proofs Require Import SourceTerms.
Import ListNotations.
Open Scope R_scope.

Lemma tail_mag_def : forall t, fst (tail_stress_mag_dir t) = sqrt (snd t ^ 2 + fst t ^ 2).
Proof. reflexivity. Qed.
