(* Proofs for C09: joint rotation by whole bins (and mirroring) of spectrum and wind on a uniform
   direction grid.  Fields shift by k bins, bulk rates are invariant, the stress vector rotates. *)
From Coq Require Import Reals List Arith ZArith Lia Lra.
From OSU.Lib Require Import SrcAuxDefs SrcAuxLemmas SrcAuxRot SrcAuxAtan2.
From OSU.Model Require Import SourceTerms Stress.
From OSU.Proofs Require Import SourceTerms.
Import ListNotations.
Open Scope R_scope.

(* ------------------------------------------------------------------ *)
(* vocabulary                                                           *)
(* ------------------------------------------------------------------ *)
(* uniform direction grid: theta_j = th0 + j 2pi/N (radians), constant bin width (degrees) *)
Definition uniform_dirs (g : grid) (th0 dstep : R) : Prop :=
  forall j, (j < ndir g)%nat -> gth g j = ang th0 (ndir g) j /\ gdth g j = dstep.
Definition well_shaped (g : grid) (E : field) : Prop :=
  length E = nfreq g /\ forall i, (i < nfreq g)%nat -> length (nth i E []) = ndir g.
(* wind turned by k bins (k * 360/N degrees) / mirrored *)
Definition rot_wind (w : wind) (k N : nat) : wind :=
  mkwind (wspeed w) (wdir w + INR k * (360 / INR N)) (wkind w).
Definition mir_wind (w : wind) : wind := mkwind (wspeed w) (- wdir w) (wkind w).
(* S' is S shifted by k bins / mirrored, on an nf x N grid *)
Definition shifted (nf N k : nat) (S' S : field) : Prop :=
  forall i j, (i < nf)%nat -> (j < N)%nat -> fnth S' i j = fnth S i (ridx N j k).
Definition mirrored (nf N : nat) (S' S : field) : Prop :=
  forall i j, (i < nf)%nat -> (j < N)%nat -> fnth S' i j = fnth S i (midx N j).
(* rotation of a vector (east, north) by the angle a *)
Definition rotate2 (a : R) (v : R * R) : R * R :=
  (cos a * fst v - sin a * snd v, sin a * fst v + cos a * snd v).
Definition rot_angle (k N : nat) : R := INR k * (2 * PI / INR N).

Lemma rot_field_shifted : forall g E k, well_shaped g E -> (k < ndir g)%nat ->
  shifted (nfreq g) (ndir g) k (rot_field k E) E.
Proof.
  intros g E k (Hl & Hr) Hk i j Hi Hj.
  rewrite (fnth_rot_field k E i j (ndir g)); [|lia|apply Hr; exact Hi|exact Hj].
  rewrite ridx_mod by exact Hk. reflexivity.
Qed.

Lemma mir_field_mirrored : forall g E, well_shaped g E ->
  mirrored (nfreq g) (ndir g) (mir_field E) E.
Proof.
  intros g E (Hl & Hr) i j Hi Hj.
  rewrite (fnth_mir_field E i j (ndir g)); [reflexivity|lia|apply Hr; exact Hi|exact Hj].
Qed.

Lemma fv_rot : forall p w k N z0, friction_velocity p (rot_wind w k N) z0 = friction_velocity p w z0.
Proof. intros. reflexivity. Qed.
Lemma fv_mir : forall p w z0, friction_velocity p (mir_wind w) z0 = friction_velocity p w z0.
Proof. intros. reflexivity. Qed.

Lemma rot_wind_rad : forall w k N, (0 < N)%nat ->
  wdir (rot_wind w k N) * PI / 180 = wdir w * PI / 180 + rot_angle k N.
Proof. intros. unfold rot_wind, rot_angle. cbn [wdir]. apply wind_rot_rad. assumption. Qed.

Lemma mir_wind_rad : forall w, wdir (mir_wind w) * PI / 180 = - (wdir w * PI / 180).
Proof. intros. unfold mir_wind. cbn [wdir]. field. Qed.

(* ------------------------------------------------------------------ *)
(* ST4 wind input: the field shifts by k bins / is mirrored              *)
(* ------------------------------------------------------------------ *)
Theorem st4_input_k_rot : forall p w z0 g ks E th0 ds k,
  uniform_dirs g th0 ds -> (k < ndir g)%nat -> well_shaped g E ->
  shifted (nfreq g) (ndir g) k
          (st4_input_k p (rot_wind w k (ndir g)) z0 g ks (rot_field k E))
          (st4_input_k p w z0 g ks E).
Proof.
  intros p w z0 g ks E th0 ds k Hu Hk Hs i j Hi Hj.
  assert (HN : (0 < ndir g)%nat) by lia.
  pose proof (ridx_lt (ndir g) j k HN) as Hr.
  rewrite !st4_input_k_entry by assumption.
  rewrite fv_rot, rot_wind_rad by exact HN.
  rewrite (rot_field_shifted g E k Hs Hk i j Hi Hj).
  destruct (Hu j Hj) as [-> _]. destruct (Hu _ Hr) as [-> _].
  unfold rot_angle. rewrite cos_rel_rot by assumption. reflexivity.
Qed.

Theorem st4_input_rot : forall p w depth z0 g E th0 ds k,
  uniform_dirs g th0 ds -> (k < ndir g)%nat -> well_shaped g E ->
  shifted (nfreq g) (ndir g) k
          (st4_input p (rot_wind w k (ndir g)) depth z0 g (rot_field k E))
          (st4_input p w depth z0 g E).
Proof. intros. unfold st4_input. eapply st4_input_k_rot; eassumption. Qed.

Theorem st4_input_k_mirror : forall p w z0 g ks E ds,
  uniform_dirs g 0 ds -> well_shaped g E ->
  mirrored (nfreq g) (ndir g)
           (st4_input_k p (mir_wind w) z0 g ks (mir_field E))
           (st4_input_k p w z0 g ks E).
Proof.
  intros p w z0 g ks E ds Hu Hs i j Hi Hj.
  assert (HN : (0 < ndir g)%nat) by lia.
  pose proof (midx_lt (ndir g) j HN) as Hr.
  rewrite !st4_input_k_entry by assumption.
  rewrite fv_mir, mir_wind_rad.
  rewrite (mir_field_mirrored g E Hs i j Hi Hj).
  destruct (Hu j Hj) as [-> _]. destruct (Hu _ Hr) as [-> _].
  rewrite cos_rel_mirror by assumption. reflexivity.
Qed.

Theorem st4_input_mirror : forall p w depth z0 g E ds,
  uniform_dirs g 0 ds -> well_shaped g E ->
  mirrored (nfreq g) (ndir g)
           (st4_input p (mir_wind w) depth z0 g (mir_field E))
           (st4_input p w depth z0 g E).
Proof. intros. unfold st4_input. eapply st4_input_k_mirror; eassumption. Qed.

(* ------------------------------------------------------------------ *)
(* bulk rates are invariant                                             *)
(* ------------------------------------------------------------------ *)
Theorem bulk_shift_invariant : forall g th0 ds k S' S,
  uniform_dirs g th0 ds -> (k < ndir g)%nat -> shifted (nfreq g) (ndir g) k S' S ->
  bulk g S' = bulk g S.
Proof.
  intros g th0 ds k S' S Hu Hk Hsh. rewrite !bulk_is_integral.
  assert (HN : (0 < ndir g)%nat) by lia.
  apply rsum_ext. intros i Hi.
  rewrite (rsum_ext _ (fun j => (fun m => fnth S i m * gdf g i * ds) (ridx (ndir g) j k)) (ndir g)).
  2:{ intros j Hj. cbv beta. rewrite (Hsh i j Hi Hj). destruct (Hu j Hj) as [_ ->]. reflexivity. }
  rewrite (rsum_ridx (fun m => fnth S i m * gdf g i * ds)) by exact Hk.
  apply rsum_ext. intros j Hj. destruct (Hu j Hj) as [_ ->]. reflexivity.
Qed.

Theorem bulk_mirror_invariant : forall g ds S' S,
  uniform_dirs g 0 ds -> (0 < ndir g)%nat -> mirrored (nfreq g) (ndir g) S' S ->
  bulk g S' = bulk g S.
Proof.
  intros g ds S' S Hu HN Hsh. rewrite !bulk_is_integral.
  apply rsum_ext. intros i Hi.
  rewrite (rsum_ext _ (fun j => (fun m => fnth S i m * gdf g i * ds) (midx (ndir g) j)) (ndir g)).
  2:{ intros j Hj. cbv beta. rewrite (Hsh i j Hi Hj). destruct (Hu j Hj) as [_ ->]. reflexivity. }
  rewrite (rsum_midx (fun m => fnth S i m * gdf g i * ds)) by exact HN.
  apply rsum_ext. intros j Hj. destruct (Hu j Hj) as [_ ->]. reflexivity.
Qed.

Corollary st4_input_bulk_rot : forall p w depth z0 g E th0 ds k,
  uniform_dirs g th0 ds -> (k < ndir g)%nat -> well_shaped g E ->
  bulk g (st4_input p (rot_wind w k (ndir g)) depth z0 g (rot_field k E))
  = bulk g (st4_input p w depth z0 g E).
Proof.
  intros. eapply bulk_shift_invariant; [eassumption|eassumption|].
  eapply st4_input_rot; eassumption.
Qed.

Corollary st4_input_bulk_mirror : forall p w depth z0 g E ds,
  uniform_dirs g 0 ds -> (0 < ndir g)%nat -> well_shaped g E ->
  bulk g (st4_input p (mir_wind w) depth z0 g (mir_field E)) = bulk g (st4_input p w depth z0 g E).
Proof.
  intros. eapply bulk_mirror_invariant; [eassumption|eassumption|].
  eapply st4_input_mirror; eassumption.
Qed.

(* ------------------------------------------------------------------ *)
(* the resolved stress vector rotates with the field                     *)
(* ------------------------------------------------------------------ *)
Lemma rotate2_add : forall a u v,
  rotate2 a (fst u + fst v, snd u + snd v)
  = (fst (rotate2 a u) + fst (rotate2 a v), snd (rotate2 a u) + snd (rotate2 a v)).
Proof. intros a [u1 u2] [v1 v2]. unfold rotate2. cbn [fst snd]. f_equal; ring. Qed.

Lemma rotate2_scal : forall a c v,
  rotate2 a (fst v * c, snd v * c) = (fst (rotate2 a v) * c, snd (rotate2 a v) * c).
Proof. intros a c [v1 v2]. unfold rotate2. cbn [fst snd]. f_equal; ring. Qed.

Lemma rsum_rot_lin1 : forall c s A B n,
  rsum (fun i => c * A i - s * B i) n = c * rsum A n - s * rsum B n.
Proof.
  intros. replace (c * rsum A n - s * rsum B n) with (c * rsum A n + (- s) * rsum B n) by ring.
  rewrite <- rsum_lin. apply rsum_ext. intros; ring.
Qed.
Lemma rsum_rot_lin2 : forall c s A B n,
  rsum (fun i => s * A i + c * B i) n = s * rsum A n + c * rsum B n.
Proof. intros. rewrite <- rsum_lin. reflexivity. Qed.

Theorem resolved_stress_rot : forall p g ks th0 ds k S' S,
  uniform_dirs g th0 ds -> (k < ndir g)%nat -> shifted (nfreq g) (ndir g) k S' S ->
  resolved_stress p g ks S' = rotate2 (rot_angle k (ndir g)) (resolved_stress p g ks S).
Proof.
  intros p g ks th0 ds k S' S Hu Hk Hsh.
  assert (HN : (0 < ndir g)%nat) by lia.
  unfold resolved_stress. cbv zeta. rewrite !sum2_upto_rsum.
  set (a := rot_angle k (ndir g)).
  set (X := fun i m => ds * fnth S i m * (rnth ks i / gw g i * gdf g i)).
  (* inner sums of the shifted field *)
  assert (Hc' : forall i, (i < nfreq g)%nat ->
     rsum (fun j => cos (gth g j) * gdth g j * fnth S' i j * (rnth ks i / gw g i * gdf g i)) (ndir g)
     = cos a * rsum (fun j => cos (ang th0 (ndir g) j) * X i j) (ndir g)
       - sin a * rsum (fun j => sin (ang th0 (ndir g) j) * X i j) (ndir g)).
  { intros i Hi. unfold a, rot_angle. rewrite <- (rsum_cos_rot (ndir g) k th0 (X i) Hk).
    apply rsum_ext. intros j Hj. destruct (Hu j Hj) as [-> ->]. rewrite (Hsh i j Hi Hj). unfold X. ring. }
  assert (Hs' : forall i, (i < nfreq g)%nat ->
     rsum (fun j => sin (gth g j) * gdth g j * fnth S' i j * (rnth ks i / gw g i * gdf g i)) (ndir g)
     = sin a * rsum (fun j => cos (ang th0 (ndir g) j) * X i j) (ndir g)
       + cos a * rsum (fun j => sin (ang th0 (ndir g) j) * X i j) (ndir g)).
  { intros i Hi. unfold a, rot_angle. rewrite <- (rsum_sin_rot (ndir g) k th0 (X i) Hk).
    apply rsum_ext. intros j Hj. destruct (Hu j Hj) as [-> ->]. rewrite (Hsh i j Hi Hj). unfold X. ring. }
  assert (Hc : forall i, rsum (fun j => cos (gth g j) * gdth g j * fnth S i j * (rnth ks i / gw g i * gdf g i)) (ndir g)
                         = rsum (fun j => cos (ang th0 (ndir g) j) * X i j) (ndir g)).
  { intros i. apply rsum_ext. intros j Hj. destruct (Hu j Hj) as [-> ->]. unfold X. ring. }
  assert (Hs : forall i, rsum (fun j => sin (gth g j) * gdth g j * fnth S i j * (rnth ks i / gw g i * gdf g i)) (ndir g)
                         = rsum (fun j => sin (ang th0 (ndir g) j) * X i j) (ndir g)).
  { intros i. apply rsum_ext. intros j Hj. destruct (Hu j Hj) as [-> ->]. unfold X. ring. }
  rewrite (rsum_ext _ _ (nfreq g) Hc'), (rsum_ext _ _ (nfreq g) Hs').
  rewrite (rsum_ext _ _ (nfreq g) (fun i _ => Hc i)), (rsum_ext _ _ (nfreq g) (fun i _ => Hs i)).
  rewrite rsum_rot_lin1, rsum_rot_lin2. unfold rotate2. cbn [fst snd]. f_equal; ring.
Qed.

(* ------------------------------------------------------------------ *)
(* the WAM tail stress vector rotates                                    *)
(* ------------------------------------------------------------------ *)
Theorem tail_stress_rot : forall p w z0 g x0 E th0 ds k,
  uniform_dirs g th0 ds -> (k < ndir g)%nat -> well_shaped g E ->
  tail_stress_wam p (rot_wind w k (ndir g)) z0 g x0 (rot_field k E)
  = rotate2 (rot_angle k (ndir g)) (tail_stress_wam p w z0 g x0 E).
Proof.
  intros p w z0 g x0 E th0 ds k Hu Hk Hs.
  assert (HN : (0 < ndir g)%nat) by lia.
  unfold tail_stress_wam. cbv zeta.
  rewrite fv_rot, rot_wind_rad by exact HN.
  set (a := rot_angle k (ndir g)). set (wdr := wdir w * PI / 180).
  rewrite !sum_upto_rsum.
  set (last := (nfreq g - 1)%nat).
  set (X := fun m => let cm := cos (ang th0 (ndir g) m - wdr) in
                     if Rle_dec cm 0 then 0 else cm ^ 2 * fnth E last m * ds).
  assert (Hterm' : forall trig j, (j < ndir g)%nat ->
     tail_dir_term g (wdr + a) (rot_field k E) trig j = trig (ang th0 (ndir g) j) * X (ridx (ndir g) j k)).
  { intros trig j Hj. unfold tail_dir_term, X. cbv zeta. fold last.
    destruct (Hu j Hj) as [-> ->].
    unfold a, rot_angle. rewrite cos_rel_rot by assumption.
    destruct (le_lt_dec (nfreq g) last) as [Hl|Hl].
    - (* nfreq g = 0: every entry is 0 *)
      assert (Hz : forall F m, fnth F last m = 0 \/ True) by (intros; right; exact I).
      unfold fnth at 1. unfold rot_field.
      rewrite (nth_overflow (map (rot_row k) E)) by (rewrite map_length; destruct Hs as [-> _]; exact Hl).
      unfold fnth. rewrite (nth_overflow E) by (destruct Hs as [-> _]; exact Hl).
      destruct j; destruct (ridx (ndir g) _ k); destruct (Rle_dec _ 0); cbn; ring.
    - rewrite (rot_field_shifted g E k Hs Hk last j Hl Hj).
      destruct (Rle_dec _ 0); ring. }
  assert (Hterm : forall trig j, (j < ndir g)%nat ->
     tail_dir_term g wdr E trig j = trig (ang th0 (ndir g) j) * X j).
  { intros trig j Hj. unfold tail_dir_term, X. cbv zeta. fold last.
    destruct (Hu j Hj) as [-> ->]. destruct (Rle_dec _ 0); ring. }
  rewrite (rsum_ext _ _ (ndir g) (Hterm' cos)), (rsum_ext _ _ (ndir g) (Hterm' sin)).
  rewrite (rsum_ext _ _ (ndir g) (Hterm cos)), (rsum_ext _ _ (ndir g) (Hterm sin)).
  rewrite (rsum_cos_rot (ndir g) k th0 X Hk), (rsum_sin_rot (ndir g) k th0 X Hk).
  fold (rot_angle k (ndir g)). fold a.
  rewrite cos_plus, sin_plus. unfold rotate2. cbn [fst snd]. f_equal; ring.
Qed.

(* ------------------------------------------------------------------ *)
(* total stress: vector rotates, magnitude invariant, direction + alpha  *)
(* ------------------------------------------------------------------ *)
Theorem total_stress_vec_rot : forall p w depth z0 g x0 E th0 ds k,
  uniform_dirs g th0 ds -> (k < ndir g)%nat -> well_shaped g E ->
  total_stress_vec p (rot_wind w k (ndir g)) depth z0 g x0 (rot_field k E)
  = rotate2 (rot_angle k (ndir g)) (total_stress_vec p w depth z0 g x0 E).
Proof.
  intros p w depth z0 g x0 E th0 ds k Hu Hk Hs.
  assert (HN : (0 < ndir g)%nat) by lia.
  unfold total_stress_vec. cbv zeta.
  rewrite (resolved_stress_rot p g _ th0 ds k _ (st4_input p w depth z0 g E) Hu Hk
             (st4_input_rot p w depth z0 g E th0 ds k Hu Hk Hs)).
  rewrite (tail_stress_rot p w z0 g x0 E th0 ds k Hu Hk Hs).
  rewrite fv_rot, rot_wind_rad by exact HN.
  rewrite cos_plus, sin_plus. unfold rotate2. cbn [fst snd]. f_equal; ring.
Qed.

Lemma rotate2_norm : forall a v,
  snd (rotate2 a v) ^ 2 + fst (rotate2 a v) ^ 2 = snd v ^ 2 + fst v ^ 2.
Proof.
  intros a [e n]. unfold rotate2. cbn [fst snd].
  apply rot_norm. rewrite <- (sin2_cos2 a). unfold Rsqr. ring.
Qed.

Lemma rotate2_nonzero : forall a v, (fst v <> 0 \/ snd v <> 0) ->
  (fst (rotate2 a v) <> 0 \/ snd (rotate2 a v) <> 0).
Proof.
  intros a v H.
  destruct (Req_dec (fst (rotate2 a v)) 0) as [H1|H1]; [|left; exact H1].
  destruct (Req_dec (snd (rotate2 a v)) 0) as [H2|H2]; [|right; exact H2].
  exfalso. pose proof (rotate2_norm a v) as Hn. rewrite H1, H2 in Hn.
  assert (0 <= fst v ^ 2) by apply pow2_ge_0. assert (0 <= snd v ^ 2) by apply pow2_ge_0.
  assert (Hz : snd v ^ 2 + fst v ^ 2 = 0) by lra.
  assert (fst v ^ 2 = 0) by lra. assert (snd v ^ 2 = 0) by lra.
  destruct H as [H|H]; apply H.
  - apply (pow_nonzero _ 2%nat) in H. contradiction.
  - apply (pow_nonzero _ 2%nat) in H. contradiction.
Qed.

(* direction of a rotated vector, in vector form: cos/sin of (dir' in radians) = cos/sin of (dir + a) *)
Lemma dir_deg_rotate : forall a v, (fst v <> 0 \/ snd v <> 0) ->
  let d := dir_deg (snd v) (fst v) in
  let d' := dir_deg (snd (rotate2 a v)) (fst (rotate2 a v)) in
  cos (d' * PI / 180) = cos (d * PI / 180 + a) /\ sin (d' * PI / 180) = sin (d * PI / 180 + a).
Proof.
  intros a v H d d'.
  destruct (dir_deg_spec (fst v) (snd v) H) as [Hc Hs].
  destruct (dir_deg_spec _ _ (rotate2_nonzero a v H)) as [Hc' Hs'].
  fold d in Hc, Hs. fold d' in Hc', Hs'.
  rewrite Hc', Hs', cos_plus, sin_plus, Hc, Hs.
  assert (Hn : sqrt (fst (rotate2 a v) ^ 2 + snd (rotate2 a v) ^ 2) = sqrt (fst v ^ 2 + snd v ^ 2)).
  { f_equal. pose proof (rotate2_norm a v). lra. }
  rewrite Hn. pose proof (norm_pos _ _ H) as Hr.
  destruct v as [e n]. unfold rotate2. cbn [fst snd] in *. split; field; lra.
Qed.

Theorem total_stress_point_rot : forall p w depth z0 g x0 E th0 ds k,
  uniform_dirs g th0 ds -> (k < ndir g)%nat -> well_shaped g E ->
  friction_velocity p w z0 <> 0 ->
  let v := total_stress_vec p w depth z0 g x0 E in
  (fst v <> 0 \/ snd v <> 0) ->
  exists d d',
    total_stress_point p w depth z0 g x0 E = (sqrt (snd v ^ 2 + fst v ^ 2), Some d) /\
    total_stress_point p (rot_wind w k (ndir g)) depth z0 g x0 (rot_field k E)
      = (sqrt (snd v ^ 2 + fst v ^ 2), Some d') /\
    0 <= d' < 360 /\
    cos (d' * PI / 180) = cos ((d + INR k * (360 / INR (ndir g))) * PI / 180) /\
    sin (d' * PI / 180) = sin ((d + INR k * (360 / INR (ndir g))) * PI / 180).
Proof.
  intros p w depth z0 g x0 E th0 ds k Hu Hk Hs Hfv v Hv.
  assert (HN : (0 < ndir g)%nat) by lia.
  unfold total_stress_point. rewrite fv_rot.
  destruct (Req_EM_T (friction_velocity p w z0) 0) as [Hz|_]; [contradiction|].
  cbv zeta. rewrite (total_stress_vec_rot p w depth z0 g x0 E th0 ds k Hu Hk Hs). fold v.
  eexists. eexists. split; [reflexivity|]. split.
  - rewrite rotate2_norm. reflexivity.
  - split; [apply dir_deg_range|].
    rewrite wind_rot_rad by exact HN.
    exact (dir_deg_rotate (rot_angle k (ndir g)) v Hv).
Qed.

(* the function whose root is the roughness length is the same function for the rotated problem
   (the solver therefore visits the same values: roughness, drag and friction velocity coincide) *)
Theorem stress_iteration_function_rot : forall p w depth g x0of E th0 ds k l,
  uniform_dirs g th0 ds -> (k < ndir g)%nat -> well_shaped g E ->
  stress_iteration_function p (rot_wind w k (ndir g)) depth g x0of (rot_field k E) l
  = stress_iteration_function p w depth g x0of E l.
Proof.
  intros p w depth g x0of E th0 ds k l Hu Hk Hs.
  unfold stress_iteration_function. cbv zeta. rewrite fv_rot. f_equal.
  unfold total_stress_point. rewrite fv_rot.
  destruct (Req_EM_T _ 0); [reflexivity|]. cbv zeta. cbn [fst].
  rewrite (total_stress_vec_rot p w depth (exp l) g (x0of (exp l)) E th0 ds k Hu Hk Hs).
  rewrite rotate2_norm. reflexivity.
Qed.

(* any solver, seen as a function of the function it is applied to, returns the same result *)
Theorem solver_ext : forall (solver : (R -> R) -> R) p w depth g x0of E th0 ds k,
  uniform_dirs g th0 ds -> (k < ndir g)%nat -> well_shaped g E ->
  (forall f f', (forall l, f l = f' l) -> solver f = solver f') ->
  solver (stress_iteration_function p (rot_wind w k (ndir g)) depth g x0of (rot_field k E))
  = solver (stress_iteration_function p w depth g x0of E).
Proof.
  intros solver p w depth g x0of E th0 ds k Hu Hk Hs Hext. apply Hext.
  intros l. eapply stress_iteration_function_rot; eassumption.
Qed.

(* ------------------------------------------------------------------ *)
(* mirror image: east component kept, north component negated            *)
(* ------------------------------------------------------------------ *)
Definition flip2 (v : R * R) : R * R := (fst v, - snd v).

Lemma rsum_cos_mirror : forall N (X : nat -> R), (0 < N)%nat ->
  rsum (fun j => cos (ang 0 N j) * X (midx N j)) N = rsum (fun j => cos (ang 0 N j) * X j) N.
Proof.
  intros N X HN.
  rewrite (rsum_ext _ (fun j => (fun m => cos (ang 0 N m) * X m) (midx N j)) N).
  2:{ intros j Hj. cbv beta. rewrite (cos_abs_mirror N j Hj). reflexivity. }
  apply (rsum_midx (fun m => cos (ang 0 N m) * X m)). exact HN.
Qed.

Lemma rsum_sin_mirror : forall N (X : nat -> R), (0 < N)%nat ->
  rsum (fun j => sin (ang 0 N j) * X (midx N j)) N = - rsum (fun j => sin (ang 0 N j) * X j) N.
Proof.
  intros N X HN.
  rewrite (rsum_ext _ (fun j => (fun m => (-1) * (sin (ang 0 N m) * X m)) (midx N j)) N).
  2:{ intros j Hj. cbv beta. rewrite (sin_abs_mirror N j Hj). ring. }
  rewrite (rsum_midx (fun m => (-1) * (sin (ang 0 N m) * X m))) by exact HN.
  rewrite rsum_scal. ring.
Qed.

Theorem resolved_stress_mirror : forall p g ks ds S' S,
  uniform_dirs g 0 ds -> (0 < ndir g)%nat -> mirrored (nfreq g) (ndir g) S' S ->
  resolved_stress p g ks S' = flip2 (resolved_stress p g ks S).
Proof.
  intros p g ks ds S' S Hu HN Hsh.
  unfold resolved_stress. cbv zeta. rewrite !sum2_upto_rsum.
  set (X := fun i m => ds * fnth S i m * (rnth ks i / gw g i * gdf g i)).
  assert (Hc' : forall i, (i < nfreq g)%nat ->
     rsum (fun j => cos (gth g j) * gdth g j * fnth S' i j * (rnth ks i / gw g i * gdf g i)) (ndir g)
     = rsum (fun j => cos (gth g j) * gdth g j * fnth S i j * (rnth ks i / gw g i * gdf g i)) (ndir g)).
  { intros i Hi.
    transitivity (rsum (fun j => cos (ang 0 (ndir g) j) * X i (midx (ndir g) j)) (ndir g)).
    - apply rsum_ext. intros j Hj. destruct (Hu j Hj) as [-> ->]. rewrite (Hsh i j Hi Hj). unfold X. ring.
    - rewrite rsum_cos_mirror by exact HN. apply rsum_ext. intros j Hj.
      destruct (Hu j Hj) as [-> ->]. unfold X. ring. }
  assert (Hs' : forall i, (i < nfreq g)%nat ->
     rsum (fun j => sin (gth g j) * gdth g j * fnth S' i j * (rnth ks i / gw g i * gdf g i)) (ndir g)
     = (-1) * rsum (fun j => sin (gth g j) * gdth g j * fnth S i j * (rnth ks i / gw g i * gdf g i)) (ndir g)).
  { intros i Hi.
    transitivity (rsum (fun j => sin (ang 0 (ndir g) j) * X i (midx (ndir g) j)) (ndir g)).
    - apply rsum_ext. intros j Hj. destruct (Hu j Hj) as [-> ->]. rewrite (Hsh i j Hi Hj). unfold X. ring.
    - rewrite rsum_sin_mirror by exact HN.
      replace (- rsum (fun j => sin (ang 0 (ndir g) j) * X i j) (ndir g))
        with ((-1) * rsum (fun j => sin (ang 0 (ndir g) j) * X i j) (ndir g)) by ring.
      f_equal. apply rsum_ext. intros j Hj. destruct (Hu j Hj) as [-> ->]. unfold X. ring. }
  rewrite (rsum_ext _ _ (nfreq g) Hc'), (rsum_ext _ _ (nfreq g) Hs').
  rewrite rsum_scal. unfold flip2. cbn [fst snd]. f_equal. ring.
Qed.

Theorem tail_stress_mirror : forall p w z0 g x0 E ds,
  uniform_dirs g 0 ds -> (0 < ndir g)%nat -> well_shaped g E ->
  tail_stress_wam p (mir_wind w) z0 g x0 (mir_field E) = flip2 (tail_stress_wam p w z0 g x0 E).
Proof.
  intros p w z0 g x0 E ds Hu HN Hs.
  unfold tail_stress_wam. cbv zeta.
  rewrite fv_mir, mir_wind_rad.
  set (wdr := wdir w * PI / 180).
  rewrite !sum_upto_rsum.
  set (last := (nfreq g - 1)%nat).
  set (X := fun m => let cm := cos (ang 0 (ndir g) m - wdr) in
                     if Rle_dec cm 0 then 0 else cm ^ 2 * fnth E last m * ds).
  assert (Hterm' : forall trig j, (j < ndir g)%nat ->
     tail_dir_term g (- wdr) (mir_field E) trig j = trig (ang 0 (ndir g) j) * X (midx (ndir g) j)).
  { intros trig j Hj. unfold tail_dir_term, X. cbv zeta. fold last.
    destruct (Hu j Hj) as [-> ->].
    rewrite cos_rel_mirror by assumption.
    destruct (le_lt_dec (nfreq g) last) as [Hl|Hl].
    - unfold fnth at 1. unfold mir_field.
      rewrite (nth_overflow (map mir_row E)) by (rewrite map_length; destruct Hs as [-> _]; exact Hl).
      unfold fnth. rewrite (nth_overflow E) by (destruct Hs as [-> _]; exact Hl).
      destruct j; destruct (midx (ndir g) _); destruct (Rle_dec _ 0); cbn; ring.
    - rewrite (mir_field_mirrored g E Hs last j Hl Hj).
      destruct (Rle_dec _ 0); ring. }
  assert (Hterm : forall trig j, (j < ndir g)%nat ->
     tail_dir_term g wdr E trig j = trig (ang 0 (ndir g) j) * X j).
  { intros trig j Hj. unfold tail_dir_term, X. cbv zeta. fold last.
    destruct (Hu j Hj) as [-> ->]. destruct (Rle_dec _ 0); ring. }
  rewrite (rsum_ext _ _ (ndir g) (Hterm' cos)), (rsum_ext _ _ (ndir g) (Hterm' sin)).
  rewrite (rsum_ext _ _ (ndir g) (Hterm cos)), (rsum_ext _ _ (ndir g) (Hterm sin)).
  rewrite rsum_cos_mirror, rsum_sin_mirror by exact HN.
  rewrite cos_neg, sin_neg. unfold flip2. cbn [fst snd]. f_equal; ring.
Qed.

Theorem total_stress_vec_mirror : forall p w depth z0 g x0 E ds,
  uniform_dirs g 0 ds -> (0 < ndir g)%nat -> well_shaped g E ->
  total_stress_vec p (mir_wind w) depth z0 g x0 (mir_field E)
  = flip2 (total_stress_vec p w depth z0 g x0 E).
Proof.
  intros p w depth z0 g x0 E ds Hu HN Hs.
  unfold total_stress_vec. cbv zeta.
  rewrite (resolved_stress_mirror p g _ ds _ (st4_input p w depth z0 g E) Hu HN
             (st4_input_mirror p w depth z0 g E ds Hu Hs)).
  rewrite (tail_stress_mirror p w z0 g x0 E ds Hu HN Hs).
  rewrite fv_mir, mir_wind_rad.
  rewrite cos_neg, sin_neg. unfold flip2. cbn [fst snd]. f_equal; ring.
Qed.

Lemma dir_deg_flip : forall v, (fst v <> 0 \/ snd v <> 0) ->
  let d := dir_deg (snd v) (fst v) in
  let d' := dir_deg (snd (flip2 v)) (fst (flip2 v)) in
  cos (d' * PI / 180) = cos (- d * PI / 180) /\ sin (d' * PI / 180) = sin (- d * PI / 180).
Proof.
  intros v H d d'.
  destruct (dir_deg_spec (fst v) (snd v) H) as [Hc Hs].
  assert (H' : fst (flip2 v) <> 0 \/ snd (flip2 v) <> 0).
  { unfold flip2. cbn [fst snd]. destruct H; [left; assumption|right; lra]. }
  destruct (dir_deg_spec _ _ H') as [Hc' Hs'].
  fold d in Hc, Hs. fold d' in Hc', Hs'.
  replace (- d * PI / 180) with (- (d * PI / 180)) by (unfold Rdiv; ring).
  rewrite Hc', Hs', cos_neg, sin_neg, Hc, Hs.
  unfold flip2. cbn [fst snd].
  replace ((- snd v) ^ 2) with (snd v ^ 2) by ring.
  pose proof (norm_pos _ _ H) as Hr. split; [reflexivity|field; lra].
Qed.

Theorem total_stress_point_mirror : forall p w depth z0 g x0 E ds,
  uniform_dirs g 0 ds -> (0 < ndir g)%nat -> well_shaped g E ->
  friction_velocity p w z0 <> 0 ->
  let v := total_stress_vec p w depth z0 g x0 E in
  (fst v <> 0 \/ snd v <> 0) ->
  exists d d',
    total_stress_point p w depth z0 g x0 E = (sqrt (snd v ^ 2 + fst v ^ 2), Some d) /\
    total_stress_point p (mir_wind w) depth z0 g x0 (mir_field E) = (sqrt (snd v ^ 2 + fst v ^ 2), Some d') /\
    0 <= d' < 360 /\
    cos (d' * PI / 180) = cos (- d * PI / 180) /\ sin (d' * PI / 180) = sin (- d * PI / 180).
Proof.
  intros p w depth z0 g x0 E ds Hu HN Hs Hfv v Hv.
  unfold total_stress_point. rewrite fv_mir.
  destruct (Req_EM_T (friction_velocity p w z0) 0) as [Hz|_]; [contradiction|].
  cbv zeta. rewrite (total_stress_vec_mirror p w depth z0 g x0 E ds Hu HN Hs). fold v.
  eexists. eexists. split; [reflexivity|]. split.
  - unfold flip2. cbn [fst snd]. replace ((- snd v) ^ 2) with (snd v ^ 2) by ring. reflexivity.
  - split; [apply dir_deg_range|]. exact (dir_deg_flip v Hv).
Qed.

(* ------------------------------------------------------------------ *)
(* dissipation-weighted wave direction                                   *)
(* ------------------------------------------------------------------ *)
Lemma fold_sub_rsum : forall (f : nat -> R) n acc,
  fold_left (fun a j => a - f j) (seq 0 n) acc = acc - rsum f n.
Proof.
  intros f n. induction n as [|n IH]; intros acc.
  - simpl. lra.
  - rewrite seq_S, fold_left_app. simpl. rewrite IH. lra.
Qed.

Lemma fold2_sub_rsum : forall (f : nat -> nat -> R) n m acc,
  fold_left (fun a i => fold_left (fun a' j => a' - f i j) (seq 0 m) a) (seq 0 n) acc
  = acc - rsum (fun i => rsum (f i) m) n.
Proof.
  intros f n m. induction n as [|n IH]; intros acc.
  - simpl. lra.
  - rewrite seq_S, fold_left_app. simpl. rewrite IH, fold_sub_rsum. lra.
Qed.

Lemma diss_k_vector_sums : forall g ks D,
  diss_k_vector g ks D
  = (- rsum (fun i => rsum (fun j => rnth ks i * cos (gth g j) * fnth D i j * gdf g i * gdth g j) (ndir g)) (nfreq g),
     - rsum (fun i => rsum (fun j => rnth ks i * sin (gth g j) * fnth D i j * gdf g i * gdth g j) (ndir g)) (nfreq g)).
Proof.
  intros. unfold diss_k_vector. cbv zeta.
  rewrite (fold2_sub_rsum (fun i j => rnth ks i * cos (gth g j) * fnth D i j * gdf g i * gdth g j)).
  rewrite (fold2_sub_rsum (fun i j => rnth ks i * sin (gth g j) * fnth D i j * gdf g i * gdth g j)).
  f_equal; ring.
Qed.

Theorem diss_k_vector_rot : forall g ks th0 ds k D' D,
  uniform_dirs g th0 ds -> (k < ndir g)%nat -> shifted (nfreq g) (ndir g) k D' D ->
  diss_k_vector g ks D' = rotate2 (rot_angle k (ndir g)) (diss_k_vector g ks D).
Proof.
  intros g ks th0 ds k D' D Hu Hk Hsh. rewrite !diss_k_vector_sums.
  set (a := rot_angle k (ndir g)).
  set (X := fun i m => rnth ks i * fnth D i m * gdf g i * ds).
  assert (Hc' : forall i, (i < nfreq g)%nat ->
     rsum (fun j => rnth ks i * cos (gth g j) * fnth D' i j * gdf g i * gdth g j) (ndir g)
     = cos a * rsum (fun j => cos (ang th0 (ndir g) j) * X i j) (ndir g)
       - sin a * rsum (fun j => sin (ang th0 (ndir g) j) * X i j) (ndir g)).
  { intros i Hi. unfold a, rot_angle. rewrite <- (rsum_cos_rot (ndir g) k th0 (X i) Hk).
    apply rsum_ext. intros j Hj. destruct (Hu j Hj) as [-> ->]. rewrite (Hsh i j Hi Hj). unfold X. ring. }
  assert (Hs' : forall i, (i < nfreq g)%nat ->
     rsum (fun j => rnth ks i * sin (gth g j) * fnth D' i j * gdf g i * gdth g j) (ndir g)
     = sin a * rsum (fun j => cos (ang th0 (ndir g) j) * X i j) (ndir g)
       + cos a * rsum (fun j => sin (ang th0 (ndir g) j) * X i j) (ndir g)).
  { intros i Hi. unfold a, rot_angle. rewrite <- (rsum_sin_rot (ndir g) k th0 (X i) Hk).
    apply rsum_ext. intros j Hj. destruct (Hu j Hj) as [-> ->]. rewrite (Hsh i j Hi Hj). unfold X. ring. }
  assert (Hc : forall i, (i < nfreq g)%nat ->
     rsum (fun j => rnth ks i * cos (gth g j) * fnth D i j * gdf g i * gdth g j) (ndir g)
     = rsum (fun j => cos (ang th0 (ndir g) j) * X i j) (ndir g)).
  { intros i _. apply rsum_ext. intros j Hj. destruct (Hu j Hj) as [-> ->]. unfold X. ring. }
  assert (Hs : forall i, (i < nfreq g)%nat ->
     rsum (fun j => rnth ks i * sin (gth g j) * fnth D i j * gdf g i * gdth g j) (ndir g)
     = rsum (fun j => sin (ang th0 (ndir g) j) * X i j) (ndir g)).
  { intros i _. apply rsum_ext. intros j Hj. destruct (Hu j Hj) as [-> ->]. unfold X. ring. }
  rewrite (rsum_ext _ _ (nfreq g) Hc'), (rsum_ext _ _ (nfreq g) Hs').
  rewrite (rsum_ext _ _ (nfreq g) Hc), (rsum_ext _ _ (nfreq g) Hs).
  rewrite rsum_rot_lin1, rsum_rot_lin2. unfold rotate2. cbn [fst snd]. f_equal; ring.
Qed.

(* the mean direction of any dissipation field that shifts with the spectrum turns by alpha *)
Theorem diss_direction_rot : forall depth g th0 ds k D' D,
  uniform_dirs g th0 ds -> (k < ndir g)%nat -> shifted (nfreq g) (ndir g) k D' D ->
  let v := diss_k_vector g (wavenumbers GRAV depth (g_w g)) D in
  (fst v <> 0 \/ snd v <> 0) ->
  cos (diss_direction depth g D' * PI / 180)
    = cos ((diss_direction depth g D + INR k * (360 / INR (ndir g))) * PI / 180) /\
  sin (diss_direction depth g D' * PI / 180)
    = sin ((diss_direction depth g D + INR k * (360 / INR (ndir g))) * PI / 180).
Proof.
  intros depth g th0 ds k D' D Hu Hk Hsh v Hv.
  assert (HN : (0 < ndir g)%nat) by lia.
  unfold diss_direction. cbv zeta.
  rewrite (diss_k_vector_rot g _ th0 ds k D' D Hu Hk Hsh). fold v.
  rewrite wind_rot_rad by exact HN.
  exact (dir_deg_rotate (rot_angle k (ndir g)) v Hv).
Qed.

(* ------------------------------------------------------------------ *)
(* ST6: the directional integral is invariant, the field shifts          *)
(* ------------------------------------------------------------------ *)
Lemma dir_integrate_shift : forall g th0 ds k S' S,
  uniform_dirs g th0 ds -> (k < ndir g)%nat -> shifted (nfreq g) (ndir g) k S' S ->
  dir_integrate g S' = dir_integrate g S.
Proof.
  intros g th0 ds k S' S Hu Hk Hsh. unfold dir_integrate.
  apply map_ext_in. intros i Hi. apply in_seq in Hi. rewrite !sum_upto_rsum.
  rewrite (rsum_ext _ (fun j => (fun m => fnth S i m * ds) (ridx (ndir g) j k)) (ndir g)).
  2:{ intros j Hj. cbv beta. rewrite (Hsh i j) by lia. destruct (Hu j Hj) as [_ ->]. reflexivity. }
  rewrite (rsum_ridx (fun m => fnth S i m * ds)) by exact Hk.
  apply rsum_ext. intros j Hj. destruct (Hu j Hj) as [_ ->]. reflexivity.
Qed.

Theorem st6_diss_k_rot : forall q g ks cgs E th0 ds k,
  uniform_dirs g th0 ds -> (k < ndir g)%nat -> well_shaped g E ->
  shifted (nfreq g) (ndir g) k (st6_dissipation_k q g ks cgs (rot_field k E)) (st6_dissipation_k q g ks cgs E).
Proof.
  intros q g ks cgs E th0 ds k Hu Hk Hs i j Hi Hj.
  assert (HN : (0 < ndir g)%nat) by lia.
  pose proof (ridx_lt (ndir g) j k HN) as Hr.
  pose proof (rot_field_shifted g E k Hs Hk) as Hsh.
  unfold st6_dissipation_k. cbv zeta. rewrite !fnth_mk_field by assumption.
  unfold st6_inherent, st6_cumulative. rewrite !fnth_mk_field by assumption.
  unfold st6_exceedence. rewrite (dir_integrate_shift g th0 ds k _ E Hu Hk Hsh).
  rewrite (Hsh i j Hi Hj). reflexivity.
Qed.

Theorem st6_diss_rot : forall q depth g E th0 ds k,
  uniform_dirs g th0 ds -> (k < ndir g)%nat -> well_shaped g E ->
  shifted (nfreq g) (ndir g) k (st6_dissipation q depth g (rot_field k E)) (st6_dissipation q depth g E).
Proof. intros. unfold st6_dissipation. cbv zeta. eapply st6_diss_k_rot; eassumption. Qed.

(* ------------------------------------------------------------------ *)
(* ST4 whitecapping                                                     *)
(* ------------------------------------------------------------------ *)
Lemma mutual_angle_rot : forall N th0 j jj k, (j < N)%nat -> (jj < N)%nat -> (k < N)%nat ->
  mutual_angle (ang th0 N jj) (ang th0 N j)
  = mutual_angle (ang th0 N (ridx N jj k)) (ang th0 N (ridx N j k)).
Proof.
  intros N th0 j jj k Hj Hjj Hk. unfold mutual_angle.
  destruct (ang_rot N j k th0 Hj Hk) as [m2 H2]. destruct (ang_rot N jj k th0 Hjj Hk) as [m1 H1].
  assert (HP : 2 * PI <> 0) by (pose proof PI_RGT_0; lra).
  replace (ang th0 N jj - ang th0 N j + PI)
    with (ang th0 N (ridx N jj k) - ang th0 N (ridx N j k) + PI + IZR (m1 - m2) * (2 * PI))
    by (rewrite H1, H2, minus_IZR; ring).
  rewrite pymod_period by exact HP. reflexivity.
Qed.

Lemma band_saturation_rot : forall q g ks cgs E th0 ds k,
  uniform_dirs g th0 ds -> (k < ndir g)%nat -> well_shaped g E ->
  shifted (nfreq g) (ndir g) k (band_saturation q g ks cgs (rot_field k E)) (band_saturation q g ks cgs E).
Proof.
  intros q g ks cgs E th0 ds k Hu Hk Hs i j Hi Hj.
  assert (HN : (0 < ndir g)%nat) by lia.
  pose proof (ridx_lt (ndir g) j k HN) as Hr.
  pose proof (rot_field_shifted g E k Hs Hk) as Hsh.
  unfold band_saturation. rewrite !fnth_mk_field by assumption. rewrite !sum_upto_rsum.
  rewrite (rsum_ext _ (fun jj => (fun m => band_term q g ks cgs E i (ridx (ndir g) j k) m) (ridx (ndir g) jj k)) (ndir g)).
  2:{ intros jj Hjj. cbv beta. unfold band_term. cbv zeta.
      pose proof (ridx_lt (ndir g) jj k HN) as Hrr.
      destruct (Hu j Hj) as [-> _]. destruct (Hu jj Hjj) as [-> ->].
      destruct (Hu _ Hr) as [-> _]. destruct (Hu _ Hrr) as [-> ->].
      rewrite (mutual_angle_rot (ndir g) th0 j jj k Hj Hjj Hk).
      rewrite (Hsh i jj Hi Hjj). reflexivity. }
  apply (rsum_ridx (fun m => band_term q g ks cgs E i (ridx (ndir g) j k) m)). exact Hk.
Qed.

(* the maximum of a row does not change when the row is shifted *)
Lemma fold_Rmax_spec : forall l x,
  (forall y, In y (x :: l) -> y <= fold_left Rmax l x) /\ In (fold_left Rmax l x) (x :: l).
Proof.
  induction l as [|z l IH]; intros x.
  - simpl. split; [intros y [->|[]]; lra|left; reflexivity].
  - cbn [fold_left]. destruct (IH (Rmax x z)) as [Hub Hin]. split.
    + intros y [->|[->|Hy]].
      * eapply Rle_trans; [apply Rmax_l|]. apply Hub. left. reflexivity.
      * eapply Rle_trans; [apply Rmax_r|]. apply Hub. left. reflexivity.
      * apply Hub. right. exact Hy.
    + destruct Hin as [Heq|Hin].
      * rewrite <- Heq. unfold Rmax. destruct (Rle_dec x z); [right; left; reflexivity|left; reflexivity].
      * right. right. exact Hin.
Qed.

Lemma row_max_spec : forall l, l <> [] ->
  (forall y, In y l -> y <= row_max l) /\ In (row_max l) l.
Proof. intros [|x l] H; [contradiction|]. unfold row_max. apply fold_Rmax_spec. Qed.

Lemma row_max_same_elements : forall l l', l <> [] -> l' <> [] ->
  (forall y, In y l -> In y l') -> (forall y, In y l' -> In y l) -> row_max l = row_max l'.
Proof.
  intros l l' Hl Hl' H1 H2.
  destruct (row_max_spec l Hl) as [Ub In1]. destruct (row_max_spec l' Hl') as [Ub' In2].
  apply Rle_antisym; [apply Ub'; apply H1; exact In1|apply Ub; apply H2; exact In2].
Qed.

Lemma ridx_surj : forall N m k, (m < N)%nat -> (k < N)%nat ->
  exists j, (j < N)%nat /\ ridx N j k = m.
Proof.
  intros N m k Hm Hk. exists ((m + k) mod N)%nat. split; [apply Nat.mod_upper_bound; lia|].
  unfold ridx. destruct (le_lt_dec N (m + k)) as [H|H].
  - replace ((m + k) mod N)%nat with (m + k - N)%nat.
    + replace (m + k - N + N - k)%nat with m by lia. apply Nat.mod_small. exact Hm.
    + replace (m + k)%nat with ((m + k - N) + 1 * N)%nat at 2 by lia.
      rewrite Nat.mod_add by lia. symmetry. apply Nat.mod_small. lia.
  - rewrite (Nat.mod_small (m + k)) by exact H.
    replace (m + k + N - k)%nat with (m + 1 * N)%nat by lia.
    rewrite Nat.mod_add by lia. apply Nat.mod_small. exact Hm.
Qed.

Lemma row_max_shift : forall N k (f : nat -> R), (k < N)%nat ->
  row_max (map (fun j => f (ridx N j k)) (seq 0 N)) = row_max (map f (seq 0 N)).
Proof.
  intros N k f Hk.
  assert (HN : (0 < N)%nat) by lia.
  apply row_max_same_elements.
  - destruct N; [lia|]. simpl. discriminate.
  - destruct N; [lia|]. simpl. discriminate.
  - intros y Hy. apply in_map_iff in Hy. destruct Hy as (j & <- & Hj). apply in_seq in Hj.
    apply in_map_iff. exists (ridx N j k). split; [reflexivity|]. apply in_seq.
    pose proof (ridx_lt N j k HN). lia.
  - intros y Hy. apply in_map_iff in Hy. destruct Hy as (m & <- & Hm). apply in_seq in Hm.
    destruct (ridx_surj N m k) as (j & Hj & Hr); [lia|exact Hk|].
    apply in_map_iff. exists j. split; [rewrite Hr; reflexivity|]. apply in_seq. lia.
Qed.

Lemma st4_saturation_rot : forall q g B' B E' E k,
  (k < ndir g)%nat ->
  shifted (nfreq g) (ndir g) k E' E ->
  (forall i, (i < nfreq g)%nat ->
     nth i B' [] = map (fun j => fnth B i (ridx (ndir g) j k)) (seq 0 (ndir g)) /\
     nth i B [] = map (fun j => fnth B i j) (seq 0 (ndir g))) ->
  shifted (nfreq g) (ndir g) k (st4_saturation_breaking q g B' E') (st4_saturation_breaking q g B E).
Proof.
  intros q g B' B E' E k Hk HE HB i j Hi Hj.
  assert (HN : (0 < ndir g)%nat) by lia.
  pose proof (ridx_lt (ndir g) j k HN) as Hr.
  unfold st4_saturation_breaking. destruct (Rgt_dec (sb_const q) 0).
  - rewrite !fnth_mk_field by assumption.
    destruct (HB i Hi) as [HB1 HB2].
    assert (Hmax : row_max (nth i B' []) = row_max (nth i B [])).
    { rewrite HB1, HB2. apply (row_max_shift (ndir g) k (fun j => fnth B i j) Hk). }
    assert (Hb : fnth B' i j = fnth B i (ridx (ndir g) j k)).
    { unfold fnth at 1. rewrite HB1. apply (rnth_map_seq (fun j => fnth B i (ridx (ndir g) j k))). exact Hj. }
    rewrite Hmax, Hb, (HE i j Hi Hj). reflexivity.
  - rewrite !fnth_mk_field by assumption. reflexivity.
Qed.

(* cumulative term *)
Lemma cum_row_rsum : forall g cs ss speeds cgs thr ce cn i' acc,
  cum_row g cs ss speeds cgs thr ce cn i' acc
  = acc + rsum (fun j' =>
       let t := fnth thr i' j' in
       if Rle_dec t 0 then 0
       else gdf g i' * gdth g j'
            * sqrt ((rnth cs j' * rnth speeds i' - ce) ^ 2 + (rnth ss j' * rnth speeds i' - cn) ^ 2)
            * (t ^ 2 * cum_jacobian (rnth cgs i'))) (ndir g).
Proof.
  intros. unfold cum_row.
  assert (H : forall n s a,
    fold_left (fun a j' =>
       let t := fnth thr i' j' in
       if Rle_dec t 0 then a
       else let integrant := t ^ 2 * cum_jacobian (rnth cgs i') in
            let de := rnth cs j' * rnth speeds i' - ce in
            let dn := rnth ss j' * rnth speeds i' - cn in
            let dmag := sqrt (de ^ 2 + dn ^ 2) in
            a + gdf g i' * gdth g j' * dmag * integrant) (seq s n) a
    = a + rsum (fun j => (fun j' =>
       let t := fnth thr i' j' in
       if Rle_dec t 0 then 0
       else gdf g i' * gdth g j'
            * sqrt ((rnth cs j' * rnth speeds i' - ce) ^ 2 + (rnth ss j' * rnth speeds i' - cn) ^ 2)
            * (t ^ 2 * cum_jacobian (rnth cgs i'))) (s + j)%nat) n).
  { induction n as [|n IH]; intros s a.
    - simpl. lra.
    - rewrite seq_S, fold_left_app. cbn [fold_left rsum]. rewrite IH. cbv zeta.
      destruct (Rle_dec (fnth thr i' (s + n)) 0); lra. }
  rewrite H. f_equal.
Qed.

Lemma rot_dist : forall c1 c2 C1 S1 C2 S2 ca sa, ca ^ 2 + sa ^ 2 = 1 ->
  ((C1 * ca - S1 * sa) * c1 - (C2 * ca - S2 * sa) * c2) ^ 2
  + ((S1 * ca + C1 * sa) * c1 - (S2 * ca + C2 * sa) * c2) ^ 2
  = (C1 * c1 - C2 * c2) ^ 2 + (S1 * c1 - S2 * c2) ^ 2.
Proof.
  intros. set (u := C1 * c1 - C2 * c2). set (v := S1 * c1 - S2 * c2).
  replace ((C1 * ca - S1 * sa) * c1 - (C2 * ca - S2 * sa) * c2) with (u * ca - v * sa) by (unfold u, v; ring).
  replace ((S1 * ca + C1 * sa) * c1 - (S2 * ca + C2 * sa) * c2) with (v * ca + u * sa) by (unfold u, v; ring).
  replace ((u * ca - v * sa) ^ 2 + (v * ca + u * sa) ^ 2) with ((u ^ 2 + v ^ 2) * (ca ^ 2 + sa ^ 2)) by ring.
  rewrite H. ring.
Qed.

Lemma cum_row_rot : forall g th0 ds k speeds cgs thr' thr i i' j acc,
  uniform_dirs g th0 ds -> (k < ndir g)%nat -> (j < ndir g)%nat -> (i' < nfreq g)%nat ->
  shifted (nfreq g) (ndir g) k thr' thr ->
  cum_row g (map cos (g_th g)) (map sin (g_th g)) speeds cgs thr'
          (rnth (map cos (g_th g)) j * rnth speeds i) (rnth (map sin (g_th g)) j * rnth speeds i) i' acc
  = cum_row g (map cos (g_th g)) (map sin (g_th g)) speeds cgs thr
          (rnth (map cos (g_th g)) (ridx (ndir g) j k) * rnth speeds i)
          (rnth (map sin (g_th g)) (ridx (ndir g) j k) * rnth speeds i) i' acc.
Proof.
  intros g th0 ds k speeds cgs thr' thr i i' j acc Hu Hk Hj Hi' Hsh.
  set (cs := map cos (g_th g)). set (ss := map sin (g_th g)).
  assert (HN : (0 < ndir g)%nat) by lia.
  pose proof (ridx_lt (ndir g) j k HN) as Hr.
  rewrite !cum_row_rsum. f_equal.
  set (a := INR k * (2 * PI / INR (ndir g))).
  assert (Hcs : forall m, (m < ndir g)%nat -> rnth cs m = cos (ang th0 (ndir g) m)).
  { intros m Hm. unfold cs. rewrite rnth_map by exact Hm. fold (gth g m). destruct (Hu m Hm) as [-> _]. reflexivity. }
  assert (Hss : forall m, (m < ndir g)%nat -> rnth ss m = sin (ang th0 (ndir g) m)).
  { intros m Hm. unfold ss. rewrite rnth_map by exact Hm. fold (gth g m). destruct (Hu m Hm) as [-> _]. reflexivity. }
  rewrite (rsum_ext _ (fun j' => (fun m =>
       let t := fnth thr i' m in
       if Rle_dec t 0 then 0
       else gdf g i' * gdth g m
            * sqrt ((rnth cs m * rnth speeds i' - rnth cs (ridx (ndir g) j k) * rnth speeds i) ^ 2
                    + (rnth ss m * rnth speeds i' - rnth ss (ridx (ndir g) j k) * rnth speeds i) ^ 2)
            * (t ^ 2 * cum_jacobian (rnth cgs i'))) (ridx (ndir g) j' k)) (ndir g)).
  2:{ intros j' Hj'. cbv beta zeta.
      pose proof (ridx_lt (ndir g) j' k HN) as Hr'.
      rewrite (Hsh i' j' Hi' Hj').
      destruct (Rle_dec _ 0); [reflexivity|].
      destruct (Hu j' Hj') as [_ ->]. destruct (Hu _ Hr') as [_ ->].
      f_equal. f_equal. f_equal.
      rewrite (Hcs j' Hj'), (Hss j' Hj'), (Hcs j Hj), (Hss j Hj), (Hcs _ Hr'), (Hss _ Hr'), (Hcs _ Hr), (Hss _ Hr).
      rewrite (cos_abs_rot (ndir g) j' k th0 Hj' Hk), (sin_abs_rot (ndir g) j' k th0 Hj' Hk).
      rewrite (cos_abs_rot (ndir g) j k th0 Hj Hk), (sin_abs_rot (ndir g) j k th0 Hj Hk).
      fold a. rewrite !cos_plus, !sin_plus.
      apply rot_dist. rewrite <- (sin2_cos2 a). unfold Rsqr. ring. }
  apply (rsum_ridx (fun m =>
       let t := fnth thr i' m in
       if Rle_dec t 0 then 0
       else gdf g i' * gdth g m
            * sqrt ((rnth cs m * rnth speeds i' - rnth cs (ridx (ndir g) j k) * rnth speeds i) ^ 2
                    + (rnth ss m * rnth speeds i' - rnth ss (ridx (ndir g) j k) * rnth speeds i) ^ 2)
            * (t ^ 2 * cum_jacobian (rnth cgs i')))). exact Hk.
Qed.

Lemma cum_rows_rot : forall g th0 ds k speeds cgs thr' thr i j limit idx acc,
  uniform_dirs g th0 ds -> (k < ndir g)%nat -> (j < ndir g)%nat ->
  (forall i', In i' idx -> (i' < nfreq g)%nat) ->
  shifted (nfreq g) (ndir g) k thr' thr ->
  cum_rows g (map cos (g_th g)) (map sin (g_th g)) speeds cgs thr'
           (rnth (map cos (g_th g)) j * rnth speeds i) (rnth (map sin (g_th g)) j * rnth speeds i) limit idx acc
  = cum_rows g (map cos (g_th g)) (map sin (g_th g)) speeds cgs thr
           (rnth (map cos (g_th g)) (ridx (ndir g) j k) * rnth speeds i)
           (rnth (map sin (g_th g)) (ridx (ndir g) j k) * rnth speeds i) limit idx acc.
Proof.
  intros g th0 ds k speeds cgs thr' thr i j limit idx. induction idx as [|i' idx IH];
    intros acc Hu Hk Hj Hidx Hsh; cbn [cum_rows]; [reflexivity|].
  destruct (Rgt_dec (gw g i') limit); [reflexivity|].
  rewrite (cum_row_rot g th0 ds k speeds cgs thr' thr i i' j acc Hu Hk Hj (Hidx i' (or_introl eq_refl)) Hsh).
  apply IH; try assumption. intros. apply Hidx. right. assumption.
Qed.

Lemma st4_cumulative_rot : forall q g ks cgs B' B E' E th0 ds k,
  uniform_dirs g th0 ds -> (k < ndir g)%nat ->
  shifted (nfreq g) (ndir g) k B' B -> shifted (nfreq g) (ndir g) k E' E ->
  shifted (nfreq g) (ndir g) k (st4_cumulative q g ks cgs B' E') (st4_cumulative q g ks cgs B E).
Proof.
  intros q g ks cgs B' B E' E th0 ds k Hu Hk HB HE i j Hi Hj.
  assert (HN : (0 < ndir g)%nat) by lia.
  pose proof (ridx_lt (ndir g) j k HN) as Hr.
  unfold st4_cumulative. destruct (Rgt_dec (cb_const q) 0); cbv zeta.
  - rewrite !fnth_mk_field by assumption.
    rewrite (HE i j Hi Hj). f_equal. f_equal.
    unfold cum_strength.
    apply (cum_rows_rot g th0 ds k _ cgs _ _ i j _ (seq 0 (nfreq g)) 0 Hu Hk Hj).
    + intros i' Hin. apply in_seq in Hin. lia.
    + intros i0 j0 Hi0 Hj0. pose proof (ridx_lt (ndir g) j0 k HN).
      rewrite !fnth_mk_field by assumption. rewrite (HB i0 j0 Hi0 Hj0). reflexivity.
  - rewrite !fnth_mk_field by assumption. reflexivity.
Qed.

Theorem st4_diss_k_rot : forall q g ks cgs E th0 ds k,
  uniform_dirs g th0 ds -> (k < ndir g)%nat -> well_shaped g E ->
  shifted (nfreq g) (ndir g) k (st4_dissipation_k q g ks cgs (rot_field k E)) (st4_dissipation_k q g ks cgs E).
Proof.
  intros q g ks cgs E th0 ds k Hu Hk Hs i j Hi Hj.
  assert (HN : (0 < ndir g)%nat) by lia.
  pose proof (ridx_lt (ndir g) j k HN) as Hr.
  pose proof (rot_field_shifted g E k Hs Hk) as HE.
  pose proof (band_saturation_rot q g ks cgs E th0 ds k Hu Hk Hs) as HB.
  unfold st4_dissipation_k. cbv zeta. rewrite !fnth_mk_field by assumption.
  rewrite (st4_cumulative_rot q g ks cgs _ _ _ _ th0 ds k Hu Hk HB HE i j Hi Hj).
  rewrite (st4_saturation_rot q g _ (band_saturation q g ks cgs E) _ E k Hk HE); try assumption.
  - reflexivity.
  - intros i0 Hi0. split.
    + unfold band_saturation at 1. rewrite nth_mk_field_row by exact Hi0.
      apply map_ext_in. intros j0 Hj0. apply in_seq in Hj0.
      specialize (HB i0 j0 Hi0 ltac:(lia)). unfold band_saturation in HB at 1.
      rewrite fnth_mk_field in HB by lia. exact HB.
    + unfold band_saturation at 1. rewrite nth_mk_field_row by exact Hi0.
      apply map_ext_in. intros j0 Hj0. apply in_seq in Hj0.
      unfold band_saturation. rewrite fnth_mk_field by lia. reflexivity.
Qed.

Theorem st4_diss_rot : forall q depth g E th0 ds k,
  uniform_dirs g th0 ds -> (k < ndir g)%nat -> well_shaped g E ->
  shifted (nfreq g) (ndir g) k (st4_dissipation q depth g (rot_field k E)) (st4_dissipation q depth g E).
Proof. intros. unfold st4_dissipation. cbv zeta. eapply st4_diss_k_rot; eassumption. Qed.

Lemma dir_integrate_mirror : forall g ds S' S,
  uniform_dirs g 0 ds -> (0 < ndir g)%nat -> mirrored (nfreq g) (ndir g) S' S ->
  dir_integrate g S' = dir_integrate g S.
Proof.
  intros g ds S' S Hu HN Hsh. unfold dir_integrate.
  apply map_ext_in. intros i Hi. apply in_seq in Hi. rewrite !sum_upto_rsum.
  rewrite (rsum_ext _ (fun j => (fun m => fnth S i m * ds) (midx (ndir g) j)) (ndir g)).
  2:{ intros j Hj. cbv beta. rewrite (Hsh i j) by lia. destruct (Hu j Hj) as [_ ->]. reflexivity. }
  rewrite (rsum_midx (fun m => fnth S i m * ds)) by exact HN.
  apply rsum_ext. intros j Hj. destruct (Hu j Hj) as [_ ->]. reflexivity.
Qed.

Theorem st6_diss_k_mirror : forall q g ks cgs E ds,
  uniform_dirs g 0 ds -> (0 < ndir g)%nat -> well_shaped g E ->
  mirrored (nfreq g) (ndir g) (st6_dissipation_k q g ks cgs (mir_field E)) (st6_dissipation_k q g ks cgs E).
Proof.
  intros q g ks cgs E ds Hu HN Hs i j Hi Hj.
  pose proof (midx_lt (ndir g) j HN) as Hr.
  pose proof (mir_field_mirrored g E Hs) as Hsh.
  unfold st6_dissipation_k. cbv zeta. rewrite !fnth_mk_field by assumption.
  unfold st6_inherent, st6_cumulative. rewrite !fnth_mk_field by assumption.
  unfold st6_exceedence. rewrite (dir_integrate_mirror g ds _ E Hu HN Hsh).
  rewrite (Hsh i j Hi Hj). reflexivity.
Qed.

Theorem st6_diss_mirror : forall q depth g E ds,
  uniform_dirs g 0 ds -> (0 < ndir g)%nat -> well_shaped g E ->
  mirrored (nfreq g) (ndir g) (st6_dissipation q depth g (mir_field E)) (st6_dissipation q depth g E).
Proof. intros. unfold st6_dissipation. cbv zeta. eapply st6_diss_k_mirror; eassumption. Qed.

(* pymod on [0,p) and uniqueness *)
Lemma pymod_small : forall r p, 0 <= r < p -> pymod r p = r.
Proof.
  intros r p [H0 H1]. unfold pymod.
  assert (Hp : 0 < p) by lra.
  assert (Hq : 0 <= r / p < 1).
  { split; [apply Rmult_le_pos; [lra|left; apply Rinv_0_lt_compat; exact Hp]|].
    apply (Rmult_lt_reg_r p); [exact Hp|]. unfold Rdiv. rewrite Rmult_assoc, Rinv_l by lra. lra. }
  assert (Hi : Int_part (r / p) = 0%Z).
  { unfold Int_part. assert (H : 1%Z = up (r / p)) by (apply tech_up; simpl; lra). rewrite <- H. reflexivity. }
  rewrite Hi. simpl. ring.
Qed.

Lemma pymod_unique : forall y p r (a : Z), 0 <= r < p -> y = r + IZR a * p -> pymod y p = r.
Proof.
  intros y p r a Hr ->. rewrite pymod_period by lra. apply pymod_small. exact Hr.
Qed.

(* the wrapped mutual angle of the mirrored pair has the same absolute value and cosine *)
Lemma mutual_angle_neg : forall x y, (exists n : Z, y = - x + IZR n * (2 * PI)) ->
  Rabs (pymod (y + PI) (2 * PI) - PI) = Rabs (pymod (x + PI) (2 * PI) - PI) /\
  cos (pymod (y + PI) (2 * PI) - PI) = cos (pymod (x + PI) (2 * PI) - PI).
Proof.
  intros x y [n Hy].
  pose proof PI_RGT_0 as HPI.
  assert (H2 : 0 < 2 * PI) by lra.
  destruct (pymod_range (x + PI) (2 * PI) H2) as [R0 R1].
  destruct (pymod_shift (x + PI) (2 * PI)) as [a Ha].
  set (r := pymod (x + PI) (2 * PI)) in *.
  destruct (Req_dec r 0) as [Hz|Hnz].
  - assert (Hy' : pymod (y + PI) (2 * PI) = 0).
    { apply (pymod_unique _ _ 0 (n - a + 1)); [lra|]. rewrite Hy, plus_IZR, minus_IZR. simpl.
      assert (x + PI = IZR a * (2 * PI)) by lra. lra. }
    rewrite Hy', Hz. split; reflexivity.
  - assert (Hy' : pymod (y + PI) (2 * PI) = 2 * PI - r).
    { apply (pymod_unique _ _ _ (n - a)); [lra|]. rewrite Hy, minus_IZR.
      assert (x + PI = r + IZR a * (2 * PI)) by lra. lra. }
    rewrite Hy'. replace (2 * PI - r - PI) with (- (r - PI)) by ring.
    rewrite Rabs_Ropp, cos_neg. split; reflexivity.
Qed.

Lemma mutual_angle_mirror : forall N j jj, (j < N)%nat -> (jj < N)%nat ->
  Rabs (mutual_angle (ang 0 N jj) (ang 0 N j)) = Rabs (mutual_angle (ang 0 N (midx N jj)) (ang 0 N (midx N j))) /\
  cos (mutual_angle (ang 0 N jj) (ang 0 N j)) = cos (mutual_angle (ang 0 N (midx N jj)) (ang 0 N (midx N j))).
Proof.
  intros N j jj Hj Hjj. unfold mutual_angle.
  destruct (ang_mirror N j Hj) as [m2 H2]. destruct (ang_mirror N jj Hjj) as [m1 H1].
  apply mutual_angle_neg. exists (m1 - m2)%Z. rewrite H1, H2, minus_IZR. ring.
Qed.

Lemma band_saturation_mirror : forall q g ks cgs E ds,
  uniform_dirs g 0 ds -> (0 < ndir g)%nat -> well_shaped g E ->
  mirrored (nfreq g) (ndir g) (band_saturation q g ks cgs (mir_field E)) (band_saturation q g ks cgs E).
Proof.
  intros q g ks cgs E ds Hu HN Hs i j Hi Hj.
  pose proof (midx_lt (ndir g) j HN) as Hr.
  pose proof (mir_field_mirrored g E Hs) as Hsh.
  unfold band_saturation. rewrite !fnth_mk_field by assumption. rewrite !sum_upto_rsum.
  rewrite (rsum_ext _ (fun jj => (fun m => band_term q g ks cgs E i (midx (ndir g) j) m) (midx (ndir g) jj)) (ndir g)).
  2:{ intros jj Hjj. cbv beta. unfold band_term. cbv zeta.
      pose proof (midx_lt (ndir g) jj HN) as Hrr.
      destruct (Hu j Hj) as [-> _]. destruct (Hu jj Hjj) as [-> ->].
      destruct (Hu _ Hr) as [-> _]. destruct (Hu _ Hrr) as [-> ->].
      destruct (mutual_angle_mirror (ndir g) j jj Hj Hjj) as [-> ->].
      rewrite (Hsh i jj Hi Hjj). reflexivity. }
  apply (rsum_midx (fun m => band_term q g ks cgs E i (midx (ndir g) j) m)). exact HN.
Qed.

Lemma midx_invol : forall N j, (j < N)%nat -> midx N (midx N j) = j.
Proof.
  intros N j Hj. unfold midx. destruct j as [|j].
  - rewrite Nat.sub_0_r, Nat.mod_same by lia. rewrite Nat.sub_0_r, Nat.mod_same by lia. reflexivity.
  - rewrite (Nat.mod_small (N - S j)) by lia. replace (N - (N - S j))%nat with (S j) by lia.
    apply Nat.mod_small. exact Hj.
Qed.

Lemma row_max_mirror : forall N (f : nat -> R), (0 < N)%nat ->
  row_max (map (fun j => f (midx N j)) (seq 0 N)) = row_max (map f (seq 0 N)).
Proof.
  intros N f HN.
  apply row_max_same_elements.
  - destruct N; [lia|]. simpl. discriminate.
  - destruct N; [lia|]. simpl. discriminate.
  - intros y Hy. apply in_map_iff in Hy. destruct Hy as (j & <- & Hj). apply in_seq in Hj.
    apply in_map_iff. exists (midx N j). split; [reflexivity|]. apply in_seq.
    pose proof (midx_lt N j HN). lia.
  - intros y Hy. apply in_map_iff in Hy. destruct Hy as (m & <- & Hm). apply in_seq in Hm.
    apply in_map_iff. exists (midx N m). split; [rewrite midx_invol by lia; reflexivity|]. apply in_seq.
    pose proof (midx_lt N m HN). lia.
Qed.

Lemma st4_saturation_mirror : forall q g B' B E' E,
  (0 < ndir g)%nat ->
  mirrored (nfreq g) (ndir g) E' E ->
  (forall i, (i < nfreq g)%nat ->
     nth i B' [] = map (fun j => fnth B i (midx (ndir g) j)) (seq 0 (ndir g)) /\
     nth i B [] = map (fun j => fnth B i j) (seq 0 (ndir g))) ->
  mirrored (nfreq g) (ndir g) (st4_saturation_breaking q g B' E') (st4_saturation_breaking q g B E).
Proof.
  intros q g B' B E' E HN HE HB i j Hi Hj.
  pose proof (midx_lt (ndir g) j HN) as Hr.
  unfold st4_saturation_breaking. destruct (Rgt_dec (sb_const q) 0).
  - rewrite !fnth_mk_field by assumption.
    destruct (HB i Hi) as [HB1 HB2].
    assert (Hmax : row_max (nth i B' []) = row_max (nth i B [])).
    { rewrite HB1, HB2. apply (row_max_mirror (ndir g) (fun j => fnth B i j) HN). }
    assert (Hb : fnth B' i j = fnth B i (midx (ndir g) j)).
    { unfold fnth at 1. rewrite HB1. apply (rnth_map_seq (fun j => fnth B i (midx (ndir g) j))). exact Hj. }
    rewrite Hmax, Hb, (HE i j Hi Hj). reflexivity.
  - rewrite !fnth_mk_field by assumption. reflexivity.
Qed.

Lemma cum_row_mirror : forall g ds speeds cgs thr' thr i i' j acc,
  uniform_dirs g 0 ds -> (0 < ndir g)%nat -> (j < ndir g)%nat -> (i' < nfreq g)%nat ->
  mirrored (nfreq g) (ndir g) thr' thr ->
  cum_row g (map cos (g_th g)) (map sin (g_th g)) speeds cgs thr'
          (rnth (map cos (g_th g)) j * rnth speeds i) (rnth (map sin (g_th g)) j * rnth speeds i) i' acc
  = cum_row g (map cos (g_th g)) (map sin (g_th g)) speeds cgs thr
          (rnth (map cos (g_th g)) (midx (ndir g) j) * rnth speeds i)
          (rnth (map sin (g_th g)) (midx (ndir g) j) * rnth speeds i) i' acc.
Proof.
  intros g ds speeds cgs thr' thr i i' j acc Hu HN Hj Hi' Hsh.
  set (cs := map cos (g_th g)). set (ss := map sin (g_th g)).
  pose proof (midx_lt (ndir g) j HN) as Hr.
  rewrite !cum_row_rsum. f_equal.
  assert (Hcs : forall m, (m < ndir g)%nat -> rnth cs m = cos (ang 0 (ndir g) m)).
  { intros m Hm. unfold cs. rewrite rnth_map by exact Hm. fold (gth g m). destruct (Hu m Hm) as [-> _]. reflexivity. }
  assert (Hss : forall m, (m < ndir g)%nat -> rnth ss m = sin (ang 0 (ndir g) m)).
  { intros m Hm. unfold ss. rewrite rnth_map by exact Hm. fold (gth g m). destruct (Hu m Hm) as [-> _]. reflexivity. }
  rewrite (rsum_ext _ (fun j' => (fun m =>
       let t := fnth thr i' m in
       if Rle_dec t 0 then 0
       else gdf g i' * gdth g m
            * sqrt ((rnth cs m * rnth speeds i' - rnth cs (midx (ndir g) j) * rnth speeds i) ^ 2
                    + (rnth ss m * rnth speeds i' - rnth ss (midx (ndir g) j) * rnth speeds i) ^ 2)
            * (t ^ 2 * cum_jacobian (rnth cgs i'))) (midx (ndir g) j')) (ndir g)).
  2:{ intros j' Hj'. cbv beta zeta.
      pose proof (midx_lt (ndir g) j' HN) as Hr'.
      rewrite (Hsh i' j' Hi' Hj').
      destruct (Rle_dec _ 0); [reflexivity|].
      destruct (Hu j' Hj') as [_ ->]. destruct (Hu _ Hr') as [_ ->].
      f_equal. f_equal. f_equal.
      rewrite (Hcs j' Hj'), (Hss j' Hj'), (Hcs j Hj), (Hss j Hj), (Hcs _ Hr'), (Hss _ Hr'), (Hcs _ Hr), (Hss _ Hr).
      rewrite (cos_abs_mirror (ndir g) j' Hj'), (sin_abs_mirror (ndir g) j' Hj').
      rewrite (cos_abs_mirror (ndir g) j Hj), (sin_abs_mirror (ndir g) j Hj).
      ring. }
  apply (rsum_midx (fun m =>
       let t := fnth thr i' m in
       if Rle_dec t 0 then 0
       else gdf g i' * gdth g m
            * sqrt ((rnth cs m * rnth speeds i' - rnth cs (midx (ndir g) j) * rnth speeds i) ^ 2
                    + (rnth ss m * rnth speeds i' - rnth ss (midx (ndir g) j) * rnth speeds i) ^ 2)
            * (t ^ 2 * cum_jacobian (rnth cgs i')))). exact HN.
Qed.

Lemma cum_rows_mirror : forall g ds speeds cgs thr' thr i j limit idx acc,
  uniform_dirs g 0 ds -> (0 < ndir g)%nat -> (j < ndir g)%nat ->
  (forall i', In i' idx -> (i' < nfreq g)%nat) ->
  mirrored (nfreq g) (ndir g) thr' thr ->
  cum_rows g (map cos (g_th g)) (map sin (g_th g)) speeds cgs thr'
           (rnth (map cos (g_th g)) j * rnth speeds i) (rnth (map sin (g_th g)) j * rnth speeds i) limit idx acc
  = cum_rows g (map cos (g_th g)) (map sin (g_th g)) speeds cgs thr
           (rnth (map cos (g_th g)) (midx (ndir g) j) * rnth speeds i)
           (rnth (map sin (g_th g)) (midx (ndir g) j) * rnth speeds i) limit idx acc.
Proof.
  intros g ds speeds cgs thr' thr i j limit idx. induction idx as [|i' idx IH];
    intros acc Hu HN Hj Hidx Hsh; cbn [cum_rows]; [reflexivity|].
  destruct (Rgt_dec (gw g i') limit); [reflexivity|].
  rewrite (cum_row_mirror g ds speeds cgs thr' thr i i' j acc Hu HN Hj (Hidx i' (or_introl eq_refl)) Hsh).
  apply IH; try assumption. intros. apply Hidx. right. assumption.
Qed.

Lemma st4_cumulative_mirror : forall q g ks cgs B' B E' E ds,
  uniform_dirs g 0 ds -> (0 < ndir g)%nat ->
  mirrored (nfreq g) (ndir g) B' B -> mirrored (nfreq g) (ndir g) E' E ->
  mirrored (nfreq g) (ndir g) (st4_cumulative q g ks cgs B' E') (st4_cumulative q g ks cgs B E).
Proof.
  intros q g ks cgs B' B E' E ds Hu HN HB HE i j Hi Hj.
  pose proof (midx_lt (ndir g) j HN) as Hr.
  unfold st4_cumulative. destruct (Rgt_dec (cb_const q) 0); cbv zeta.
  - rewrite !fnth_mk_field by assumption.
    rewrite (HE i j Hi Hj). f_equal. f_equal.
    unfold cum_strength.
    apply (cum_rows_mirror g ds _ cgs _ _ i j _ (seq 0 (nfreq g)) 0 Hu HN Hj).
    + intros i' Hin. apply in_seq in Hin. lia.
    + intros i0 j0 Hi0 Hj0. pose proof (midx_lt (ndir g) j0 HN).
      rewrite !fnth_mk_field by assumption. rewrite (HB i0 j0 Hi0 Hj0). reflexivity.
  - rewrite !fnth_mk_field by assumption. reflexivity.
Qed.

Theorem st4_diss_k_mirror : forall q g ks cgs E ds,
  uniform_dirs g 0 ds -> (0 < ndir g)%nat -> well_shaped g E ->
  mirrored (nfreq g) (ndir g) (st4_dissipation_k q g ks cgs (mir_field E)) (st4_dissipation_k q g ks cgs E).
Proof.
  intros q g ks cgs E ds Hu HN Hs i j Hi Hj.
  pose proof (midx_lt (ndir g) j HN) as Hr.
  pose proof (mir_field_mirrored g E Hs) as HE.
  pose proof (band_saturation_mirror q g ks cgs E ds Hu HN Hs) as HB.
  unfold st4_dissipation_k. cbv zeta. rewrite !fnth_mk_field by assumption.
  rewrite (st4_cumulative_mirror q g ks cgs _ _ _ _ ds Hu HN HB HE i j Hi Hj).
  rewrite (st4_saturation_mirror q g _ (band_saturation q g ks cgs E) _ E HN HE); try assumption.
  - reflexivity.
  - intros i0 Hi0. split.
    + unfold band_saturation at 1. rewrite nth_mk_field_row by exact Hi0.
      apply map_ext_in. intros j0 Hj0. apply in_seq in Hj0.
      specialize (HB i0 j0 Hi0 ltac:(lia)). unfold band_saturation in HB at 1.
      rewrite fnth_mk_field in HB by lia. exact HB.
    + unfold band_saturation at 1. rewrite nth_mk_field_row by exact Hi0.
      apply map_ext_in. intros j0 Hj0. apply in_seq in Hj0.
      unfold band_saturation. rewrite fnth_mk_field by lia. reflexivity.
Qed.

Theorem st4_diss_mirror : forall q depth g E ds,
  uniform_dirs g 0 ds -> (0 < ndir g)%nat -> well_shaped g E ->
  mirrored (nfreq g) (ndir g) (st4_dissipation q depth g (mir_field E)) (st4_dissipation q depth g E).
Proof. intros. unfold st4_dissipation. cbv zeta. eapply st4_diss_k_mirror; eassumption. Qed.

Theorem diss_k_vector_mirror : forall g ks ds D' D,
  uniform_dirs g 0 ds -> (0 < ndir g)%nat -> mirrored (nfreq g) (ndir g) D' D ->
  diss_k_vector g ks D' = flip2 (diss_k_vector g ks D).
Proof.
  intros g ks ds D' D Hu HN Hsh. rewrite !diss_k_vector_sums.
  set (X := fun i m => rnth ks i * fnth D i m * gdf g i * ds).
  assert (Hc' : forall i, (i < nfreq g)%nat ->
     rsum (fun j => rnth ks i * cos (gth g j) * fnth D' i j * gdf g i * gdth g j) (ndir g)
     = rsum (fun j => rnth ks i * cos (gth g j) * fnth D i j * gdf g i * gdth g j) (ndir g)).
  { intros i Hi.
    transitivity (rsum (fun j => cos (ang 0 (ndir g) j) * X i (midx (ndir g) j)) (ndir g)).
    - apply rsum_ext. intros j Hj. destruct (Hu j Hj) as [-> ->]. rewrite (Hsh i j Hi Hj). unfold X. ring.
    - rewrite rsum_cos_mirror by exact HN. apply rsum_ext. intros j Hj.
      destruct (Hu j Hj) as [-> ->]. unfold X. ring. }
  assert (Hs' : forall i, (i < nfreq g)%nat ->
     rsum (fun j => rnth ks i * sin (gth g j) * fnth D' i j * gdf g i * gdth g j) (ndir g)
     = (-1) * rsum (fun j => rnth ks i * sin (gth g j) * fnth D i j * gdf g i * gdth g j) (ndir g)).
  { intros i Hi.
    transitivity (rsum (fun j => sin (ang 0 (ndir g) j) * X i (midx (ndir g) j)) (ndir g)).
    - apply rsum_ext. intros j Hj. destruct (Hu j Hj) as [-> ->]. rewrite (Hsh i j Hi Hj). unfold X. ring.
    - rewrite rsum_sin_mirror by exact HN.
      replace (- rsum (fun j => sin (ang 0 (ndir g) j) * X i j) (ndir g))
        with ((-1) * rsum (fun j => sin (ang 0 (ndir g) j) * X i j) (ndir g)) by ring.
      f_equal. apply rsum_ext. intros j Hj. destruct (Hu j Hj) as [-> ->]. unfold X. ring. }
  rewrite (rsum_ext _ _ (nfreq g) Hc'), (rsum_ext _ _ (nfreq g) Hs').
  rewrite rsum_scal. unfold flip2. cbn [fst snd]. f_equal. ring.
Qed.

Theorem diss_direction_mirror : forall depth g ds D' D,
  uniform_dirs g 0 ds -> (0 < ndir g)%nat -> mirrored (nfreq g) (ndir g) D' D ->
  let v := diss_k_vector g (wavenumbers GRAV depth (g_w g)) D in
  (fst v <> 0 \/ snd v <> 0) ->
  cos (diss_direction depth g D' * PI / 180) = cos (- diss_direction depth g D * PI / 180) /\
  sin (diss_direction depth g D' * PI / 180) = sin (- diss_direction depth g D * PI / 180).
Proof.
  intros depth g ds D' D Hu HN Hsh v Hv.
  unfold diss_direction. cbv zeta.
  rewrite (diss_k_vector_mirror g _ ds D' D Hu HN Hsh). fold v.
  exact (dir_deg_flip v Hv).
Qed.

Corollary st4_diss_bulk_rot : forall q depth g E th0 ds k,
  uniform_dirs g th0 ds -> (k < ndir g)%nat -> well_shaped g E ->
  bulk g (st4_dissipation q depth g (rot_field k E)) = bulk g (st4_dissipation q depth g E).
Proof.
  intros. eapply bulk_shift_invariant; [eassumption|eassumption|].
  eapply st4_diss_rot; eassumption.
Qed.

Corollary st6_diss_bulk_rot : forall q depth g E th0 ds k,
  uniform_dirs g th0 ds -> (k < ndir g)%nat -> well_shaped g E ->
  bulk g (st6_dissipation q depth g (rot_field k E)) = bulk g (st6_dissipation q depth g E).
Proof.
  intros. eapply bulk_shift_invariant; [eassumption|eassumption|].
  eapply st6_diss_rot; eassumption.
Qed.

(* equal cosine and sine: the angles differ by a whole number of turns *)
Lemma cos_sin_eq_period : forall a b, cos a = cos b -> sin a = sin b ->
  exists m : Z, a = b + 2 * IZR m * PI.
Proof.
  intros a b Hc Hs.
  assert (Hc1 : cos (a - b) = 1).
  { rewrite cos_minus, Hc, Hs. pose proof (sin2_cos2 b) as H. unfold Rsqr in H. lra. }
  assert (Hs0 : sin (a - b) = 0) by (rewrite sin_minus, Hc, Hs; ring).
  destruct (sin_eq_0_0 _ Hs0) as [k Hk].
  destruct (Z.Even_or_Odd k) as [[m Hm]|[m Hm]].
  - exists m. subst k. rewrite mult_IZR in Hk. simpl in Hk. lra.
  - exfalso. subst k.
    assert (Hx : a - b = PI + 2 * IZR m * PI).
    { rewrite Hk, plus_IZR, mult_IZR. simpl. ring. }
    rewrite Hx, cos_period_Z, cos_PI in Hc1. lra.
Qed.

(* a direction in [0,360) whose cosine and sine are those of x degrees is x modulo 360 *)
Lemma dir_is_pymod : forall d' x, 0 <= d' < 360 ->
  cos (d' * PI / 180) = cos (x * PI / 180) -> sin (d' * PI / 180) = sin (x * PI / 180) ->
  d' = pymod x 360.
Proof.
  intros d' x Hr Hc Hs. destruct (cos_sin_eq_period _ _ Hc Hs) as [m Hm].
  symmetry. apply (pymod_unique x 360 d' (- m)); [exact Hr|].
  pose proof PI_RGT_0 as HPI. rewrite opp_IZR.
  assert (H : d' * PI = (x + 360 * IZR m) * PI) by (apply (Rmult_eq_reg_r (/ 180)); [lra|lra]).
  apply Rmult_eq_reg_r in H; lra.
Qed.

Theorem total_stress_direction_rot_mod360 : forall p w depth z0 g x0 E th0 ds k,
  uniform_dirs g th0 ds -> (k < ndir g)%nat -> well_shaped g E ->
  friction_velocity p w z0 <> 0 ->
  let v := total_stress_vec p w depth z0 g x0 E in
  (fst v <> 0 \/ snd v <> 0) ->
  exists m d d',
    total_stress_point p w depth z0 g x0 E = (m, Some d) /\
    total_stress_point p (rot_wind w k (ndir g)) depth z0 g x0 (rot_field k E) = (m, Some d') /\
    d' = pymod (d + INR k * (360 / INR (ndir g))) 360.
Proof.
  intros p w depth z0 g x0 E th0 ds k Hu Hk Hs Hfv v Hv.
  destruct (total_stress_point_rot p w depth z0 g x0 E th0 ds k Hu Hk Hs Hfv Hv)
    as (d & d' & H1 & H2 & Hr & Hc & Hsn).
  exists (sqrt (snd v ^ 2 + fst v ^ 2)), d, d'. repeat split; try assumption.
  apply dir_is_pymod; assumption.
Qed.

Theorem diss_direction_rot_mod360 : forall depth g th0 ds k D' D,
  uniform_dirs g th0 ds -> (k < ndir g)%nat -> shifted (nfreq g) (ndir g) k D' D ->
  let v := diss_k_vector g (wavenumbers GRAV depth (g_w g)) D in
  (fst v <> 0 \/ snd v <> 0) ->
  diss_direction depth g D' = pymod (diss_direction depth g D + INR k * (360 / INR (ndir g))) 360.
Proof.
  intros depth g th0 ds k D' D Hu Hk Hsh v Hv.
  destruct (diss_direction_rot depth g th0 ds k D' D Hu Hk Hsh Hv) as [Hc Hs].
  apply dir_is_pymod; [unfold diss_direction; apply dir_deg_range|assumption|assumption].
Qed.

Theorem total_stress_direction_mirror_mod360 : forall p w depth z0 g x0 E ds,
  uniform_dirs g 0 ds -> (0 < ndir g)%nat -> well_shaped g E ->
  friction_velocity p w z0 <> 0 ->
  let v := total_stress_vec p w depth z0 g x0 E in
  (fst v <> 0 \/ snd v <> 0) ->
  exists m d d',
    total_stress_point p w depth z0 g x0 E = (m, Some d) /\
    total_stress_point p (mir_wind w) depth z0 g x0 (mir_field E) = (m, Some d') /\
    d' = pymod (- d) 360.
Proof.
  intros p w depth z0 g x0 E ds Hu HN Hs Hfv v Hv.
  destruct (total_stress_point_mirror p w depth z0 g x0 E ds Hu HN Hs Hfv Hv)
    as (d & d' & H1 & H2 & Hr & Hc & Hsn).
  exists (sqrt (snd v ^ 2 + fst v ^ 2)), d, d'. repeat split; try assumption.
  apply dir_is_pymod; assumption.
Qed.

Theorem diss_direction_mirror_mod360 : forall depth g ds D' D,
  uniform_dirs g 0 ds -> (0 < ndir g)%nat -> mirrored (nfreq g) (ndir g) D' D ->
  let v := diss_k_vector g (wavenumbers GRAV depth (g_w g)) D in
  (fst v <> 0 \/ snd v <> 0) ->
  diss_direction depth g D' = pymod (- diss_direction depth g D) 360.
Proof.
  intros depth g ds D' D Hu HN Hsh v Hv.
  destruct (diss_direction_mirror depth g ds D' D Hu HN Hsh Hv) as [Hc Hs].
  apply dir_is_pymod; [unfold diss_direction; apply dir_deg_range|assumption|assumption].
Qed.

(* the tail stress magnitude / direction reported by tail_stress() *)
Theorem tail_stress_mag_dir_rot : forall p w z0 g x0 E th0 ds k,
  uniform_dirs g th0 ds -> (k < ndir g)%nat -> well_shaped g E ->
  let t := tail_stress_wam p w z0 g x0 E in
  (fst t <> 0 \/ snd t <> 0) ->
  let r := tail_stress_mag_dir t in
  let r' := tail_stress_mag_dir (tail_stress_wam p (rot_wind w k (ndir g)) z0 g x0 (rot_field k E)) in
  fst r' = fst r /\ snd r' = pymod (snd r + INR k * (360 / INR (ndir g))) 360.
Proof.
  intros p w z0 g x0 E th0 ds k Hu Hk Hs t Ht r r'.
  assert (HN : (0 < ndir g)%nat) by lia.
  unfold r', r, tail_stress_mag_dir. rewrite (tail_stress_rot p w z0 g x0 E th0 ds k Hu Hk Hs). fold t.
  cbn [fst snd]. split.
  - rewrite rotate2_norm. reflexivity.
  - destruct (dir_deg_rotate (rot_angle k (ndir g)) t Ht) as [Hc Hsn].
    apply dir_is_pymod; [apply dir_deg_range| |].
    + rewrite wind_rot_rad by exact HN. exact Hc.
    + rewrite wind_rot_rad by exact HN. exact Hsn.
Qed.
