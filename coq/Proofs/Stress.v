(* Proofs for C09: joint rotation by whole bins (and mirroring) of spectrum and wind on a uniform
   direction grid.  Fields shift by k bins, bulk rates are invariant, the stress vector rotates. *)
From Coq Require Import Reals List Arith ZArith Lia Lra.
From OSU.Lib Require Import SrcAuxDefs SrcAuxLemmas SrcAuxRot SrcAuxAtan2.
From OSU.Model Require Import SourceTerms Stress.
From OSU.Proofs Require Import SourceTerms.
Import ListNotations.
Open Scope R_scope.

(* ------------------------------------------------------------------ *)
(* vocabulary                                                           *)
(* ------------------------------------------------------------------ *)
(* uniform direction grid: theta_j = th0 + j 2pi/N (radians), constant bin width (degrees) *)
Definition uniform_dirs (g : grid) (th0 dstep : R) : Prop :=
  forall j, (j < ndir g)%nat -> gth g j = ang th0 (ndir g) j /\ gdth g j = dstep.
Definition well_shaped (g : grid) (E : field) : Prop :=
  length E = nfreq g /\ forall i, (i < nfreq g)%nat -> length (nth i E []) = ndir g.
(* wind turned by k bins (k * 360/N degrees) / mirrored *)
Definition rot_wind (w : wind) (k N : nat) : wind :=
  mkwind (wspeed w) (wdir w + INR k * (360 / INR N)) (wkind w).
Definition mir_wind (w : wind) : wind := mkwind (wspeed w) (- wdir w) (wkind w).
(* S' is S shifted by k bins / mirrored, on an nf x N grid *)
Definition shifted (nf N k : nat) (S' S : field) : Prop :=
  forall i j, (i < nf)%nat -> (j < N)%nat -> fnth S' i j = fnth S i (ridx N j k).
Definition mirrored (nf N : nat) (S' S : field) : Prop :=
  forall i j, (i < nf)%nat -> (j < N)%nat -> fnth S' i j = fnth S i (midx N j).
(* rotation of a vector (east, north) by the angle a *)
Definition rotate2 (a : R) (v : R * R) : R * R :=
  (cos a * fst v - sin a * snd v, sin a * fst v + cos a * snd v).
Definition rot_angle (k N : nat) : R := INR k * (2 * PI / INR N).

Lemma rot_field_shifted : forall g E k, well_shaped g E -> (k < ndir g)%nat ->
  shifted (nfreq g) (ndir g) k (rot_field k E) E.
Proof.
  intros g E k (Hl & Hr) Hk i j Hi Hj.
  rewrite (fnth_rot_field k E i j (ndir g)); [|lia|apply Hr; exact Hi|exact Hj].
  rewrite ridx_mod by exact Hk. reflexivity.
Qed.

Lemma mir_field_mirrored : forall g E, well_shaped g E ->
  mirrored (nfreq g) (ndir g) (mir_field E) E.
Proof.
  intros g E (Hl & Hr) i j Hi Hj.
  rewrite (fnth_mir_field E i j (ndir g)); [reflexivity|lia|apply Hr; exact Hi|exact Hj].
Qed.

Lemma fv_rot : forall p w k N z0, friction_velocity p (rot_wind w k N) z0 = friction_velocity p w z0.
Proof. intros. reflexivity. Qed.
Lemma fv_mir : forall p w z0, friction_velocity p (mir_wind w) z0 = friction_velocity p w z0.
Proof. intros. reflexivity. Qed.

Lemma rot_wind_rad : forall w k N, (0 < N)%nat ->
  wdir (rot_wind w k N) * PI / 180 = wdir w * PI / 180 + rot_angle k N.
Proof. intros. unfold rot_wind, rot_angle. cbn [wdir]. apply wind_rot_rad. assumption. Qed.

Lemma mir_wind_rad : forall w, wdir (mir_wind w) * PI / 180 = - (wdir w * PI / 180).
Proof. intros. unfold mir_wind. cbn [wdir]. field. Qed.

(* ------------------------------------------------------------------ *)
(* ST4 wind input: the field shifts by k bins / is mirrored              *)
(* ------------------------------------------------------------------ *)
Theorem st4_input_k_rot : forall p w z0 g ks E th0 ds k,
  uniform_dirs g th0 ds -> (k < ndir g)%nat -> well_shaped g E ->
  shifted (nfreq g) (ndir g) k
          (st4_input_k p (rot_wind w k (ndir g)) z0 g ks (rot_field k E))
          (st4_input_k p w z0 g ks E).
Proof.
  intros p w z0 g ks E th0 ds k Hu Hk Hs i j Hi Hj.
  assert (HN : (0 < ndir g)%nat) by lia.
  pose proof (ridx_lt (ndir g) j k HN) as Hr.
  rewrite !st4_input_k_entry by assumption.
  rewrite fv_rot, rot_wind_rad by exact HN.
  rewrite (rot_field_shifted g E k Hs Hk i j Hi Hj).
  destruct (Hu j Hj) as [-> _]. destruct (Hu _ Hr) as [-> _].
  unfold rot_angle. rewrite cos_rel_rot by assumption. reflexivity.
Qed.

Theorem st4_input_rot : forall p w depth z0 g E th0 ds k,
  uniform_dirs g th0 ds -> (k < ndir g)%nat -> well_shaped g E ->
  shifted (nfreq g) (ndir g) k
          (st4_input p (rot_wind w k (ndir g)) depth z0 g (rot_field k E))
          (st4_input p w depth z0 g E).
Proof. intros. unfold st4_input. eapply st4_input_k_rot; eassumption. Qed.

Theorem st4_input_k_mirror : forall p w z0 g ks E ds,
  uniform_dirs g 0 ds -> well_shaped g E ->
  mirrored (nfreq g) (ndir g)
           (st4_input_k p (mir_wind w) z0 g ks (mir_field E))
           (st4_input_k p w z0 g ks E).
Proof.
  intros p w z0 g ks E ds Hu Hs i j Hi Hj.
  assert (HN : (0 < ndir g)%nat) by lia.
  pose proof (midx_lt (ndir g) j HN) as Hr.
  rewrite !st4_input_k_entry by assumption.
  rewrite fv_mir, mir_wind_rad.
  rewrite (mir_field_mirrored g E Hs i j Hi Hj).
  destruct (Hu j Hj) as [-> _]. destruct (Hu _ Hr) as [-> _].
  rewrite cos_rel_mirror by assumption. reflexivity.
Qed.

Theorem st4_input_mirror : forall p w depth z0 g E ds,
  uniform_dirs g 0 ds -> well_shaped g E ->
  mirrored (nfreq g) (ndir g)
           (st4_input p (mir_wind w) depth z0 g (mir_field E))
           (st4_input p w depth z0 g E).
Proof. intros. unfold st4_input. eapply st4_input_k_mirror; eassumption. Qed.

(* ------------------------------------------------------------------ *)
(* bulk rates are invariant                                             *)
(* ------------------------------------------------------------------ *)
Theorem bulk_shift_invariant : forall g th0 ds k S' S,
  uniform_dirs g th0 ds -> (k < ndir g)%nat -> shifted (nfreq g) (ndir g) k S' S ->
  bulk g S' = bulk g S.
Proof.
  intros g th0 ds k S' S Hu Hk Hsh. rewrite !bulk_is_integral.
  assert (HN : (0 < ndir g)%nat) by lia.
  apply rsum_ext. intros i Hi.
  rewrite (rsum_ext _ (fun j => (fun m => fnth S i m * gdf g i * ds) (ridx (ndir g) j k)) (ndir g)).
  2:{ intros j Hj. cbv beta. rewrite (Hsh i j Hi Hj). destruct (Hu j Hj) as [_ ->]. reflexivity. }
  rewrite (rsum_ridx (fun m => fnth S i m * gdf g i * ds)) by exact Hk.
  apply rsum_ext. intros j Hj. destruct (Hu j Hj) as [_ ->]. reflexivity.
Qed.

Theorem bulk_mirror_invariant : forall g ds S' S,
  uniform_dirs g 0 ds -> (0 < ndir g)%nat -> mirrored (nfreq g) (ndir g) S' S ->
  bulk g S' = bulk g S.
Proof.
  intros g ds S' S Hu HN Hsh. rewrite !bulk_is_integral.
  apply rsum_ext. intros i Hi.
  rewrite (rsum_ext _ (fun j => (fun m => fnth S i m * gdf g i * ds) (midx (ndir g) j)) (ndir g)).
  2:{ intros j Hj. cbv beta. rewrite (Hsh i j Hi Hj). destruct (Hu j Hj) as [_ ->]. reflexivity. }
  rewrite (rsum_midx (fun m => fnth S i m * gdf g i * ds)) by exact HN.
  apply rsum_ext. intros j Hj. destruct (Hu j Hj) as [_ ->]. reflexivity.
Qed.

Corollary st4_input_bulk_rot : forall p w depth z0 g E th0 ds k,
  uniform_dirs g th0 ds -> (k < ndir g)%nat -> well_shaped g E ->
  bulk g (st4_input p (rot_wind w k (ndir g)) depth z0 g (rot_field k E))
  = bulk g (st4_input p w depth z0 g E).
Proof.
  intros. eapply bulk_shift_invariant; [eassumption|eassumption|].
  eapply st4_input_rot; eassumption.
Qed.

Corollary st4_input_bulk_mirror : forall p w depth z0 g E ds,
  uniform_dirs g 0 ds -> (0 < ndir g)%nat -> well_shaped g E ->
  bulk g (st4_input p (mir_wind w) depth z0 g (mir_field E)) = bulk g (st4_input p w depth z0 g E).
Proof.
  intros. eapply bulk_mirror_invariant; [eassumption|eassumption|].
  eapply st4_input_mirror; eassumption.
Qed.

(* ------------------------------------------------------------------ *)
(* the resolved stress vector rotates with the field                     *)
(* ------------------------------------------------------------------ *)
Lemma rotate2_add : forall a u v,
  rotate2 a (fst u + fst v, snd u + snd v)
  = (fst (rotate2 a u) + fst (rotate2 a v), snd (rotate2 a u) + snd (rotate2 a v)).
Proof. intros a [u1 u2] [v1 v2]. unfold rotate2. cbn [fst snd]. f_equal; ring. Qed.

Lemma rotate2_scal : forall a c v,
  rotate2 a (fst v * c, snd v * c) = (fst (rotate2 a v) * c, snd (rotate2 a v) * c).
Proof. intros a c [v1 v2]. unfold rotate2. cbn [fst snd]. f_equal; ring. Qed.

Lemma rsum_rot_lin1 : forall c s A B n,
  rsum (fun i => c * A i - s * B i) n = c * rsum A n - s * rsum B n.
Proof.
  intros. replace (c * rsum A n - s * rsum B n) with (c * rsum A n + (- s) * rsum B n) by ring.
  rewrite <- rsum_lin. apply rsum_ext. intros; ring.
Qed.
Lemma rsum_rot_lin2 : forall c s A B n,
  rsum (fun i => s * A i + c * B i) n = s * rsum A n + c * rsum B n.
Proof. intros. rewrite <- rsum_lin. reflexivity. Qed.

Theorem resolved_stress_rot : forall p g ks th0 ds k S' S,
  uniform_dirs g th0 ds -> (k < ndir g)%nat -> shifted (nfreq g) (ndir g) k S' S ->
  resolved_stress p g ks S' = rotate2 (rot_angle k (ndir g)) (resolved_stress p g ks S).
Proof.
  intros p g ks th0 ds k S' S Hu Hk Hsh.
  assert (HN : (0 < ndir g)%nat) by lia.
  unfold resolved_stress. cbv zeta. rewrite !sum2_upto_rsum.
  set (a := rot_angle k (ndir g)).
  set (X := fun i m => ds * fnth S i m * (rnth ks i / gw g i * gdf g i)).
  (* inner sums of the shifted field *)
  assert (Hc' : forall i, (i < nfreq g)%nat ->
     rsum (fun j => cos (gth g j) * gdth g j * fnth S' i j * (rnth ks i / gw g i * gdf g i)) (ndir g)
     = cos a * rsum (fun j => cos (ang th0 (ndir g) j) * X i j) (ndir g)
       - sin a * rsum (fun j => sin (ang th0 (ndir g) j) * X i j) (ndir g)).
  { intros i Hi. unfold a, rot_angle. rewrite <- (rsum_cos_rot (ndir g) k th0 (X i) Hk).
    apply rsum_ext. intros j Hj. destruct (Hu j Hj) as [-> ->]. rewrite (Hsh i j Hi Hj). unfold X. ring. }
  assert (Hs' : forall i, (i < nfreq g)%nat ->
     rsum (fun j => sin (gth g j) * gdth g j * fnth S' i j * (rnth ks i / gw g i * gdf g i)) (ndir g)
     = sin a * rsum (fun j => cos (ang th0 (ndir g) j) * X i j) (ndir g)
       + cos a * rsum (fun j => sin (ang th0 (ndir g) j) * X i j) (ndir g)).
  { intros i Hi. unfold a, rot_angle. rewrite <- (rsum_sin_rot (ndir g) k th0 (X i) Hk).
    apply rsum_ext. intros j Hj. destruct (Hu j Hj) as [-> ->]. rewrite (Hsh i j Hi Hj). unfold X. ring. }
  assert (Hc : forall i, rsum (fun j => cos (gth g j) * gdth g j * fnth S i j * (rnth ks i / gw g i * gdf g i)) (ndir g)
                         = rsum (fun j => cos (ang th0 (ndir g) j) * X i j) (ndir g)).
  { intros i. apply rsum_ext. intros j Hj. destruct (Hu j Hj) as [-> ->]. unfold X. ring. }
  assert (Hs : forall i, rsum (fun j => sin (gth g j) * gdth g j * fnth S i j * (rnth ks i / gw g i * gdf g i)) (ndir g)
                         = rsum (fun j => sin (ang th0 (ndir g) j) * X i j) (ndir g)).
  { intros i. apply rsum_ext. intros j Hj. destruct (Hu j Hj) as [-> ->]. unfold X. ring. }
  rewrite (rsum_ext _ _ (nfreq g) Hc'), (rsum_ext _ _ (nfreq g) Hs').
  rewrite (rsum_ext _ _ (nfreq g) (fun i _ => Hc i)), (rsum_ext _ _ (nfreq g) (fun i _ => Hs i)).
  rewrite rsum_rot_lin1, rsum_rot_lin2. unfold rotate2. cbn [fst snd]. f_equal; ring.
Qed.

(* ------------------------------------------------------------------ *)
(* the WAM tail stress vector rotates                                    *)
(* ------------------------------------------------------------------ *)
Theorem tail_stress_rot : forall p w z0 g x0 E th0 ds k,
  uniform_dirs g th0 ds -> (k < ndir g)%nat -> well_shaped g E ->
  tail_stress_wam p (rot_wind w k (ndir g)) z0 g x0 (rot_field k E)
  = rotate2 (rot_angle k (ndir g)) (tail_stress_wam p w z0 g x0 E).
Proof.
  intros p w z0 g x0 E th0 ds k Hu Hk Hs.
  assert (HN : (0 < ndir g)%nat) by lia.
  unfold tail_stress_wam. cbv zeta.
  rewrite fv_rot, rot_wind_rad by exact HN.
  set (a := rot_angle k (ndir g)). set (wdr := wdir w * PI / 180).
  rewrite !sum_upto_rsum.
  set (last := (nfreq g - 1)%nat).
  set (X := fun m => let cm := cos (ang th0 (ndir g) m - wdr) in
                     if Rle_dec cm 0 then 0 else cm ^ 2 * fnth E last m * ds).
  assert (Hterm' : forall trig j, (j < ndir g)%nat ->
     tail_dir_term g (wdr + a) (rot_field k E) trig j = trig (ang th0 (ndir g) j) * X (ridx (ndir g) j k)).
  { intros trig j Hj. unfold tail_dir_term, X. cbv zeta. fold last.
    destruct (Hu j Hj) as [-> ->].
    unfold a, rot_angle. rewrite cos_rel_rot by assumption.
    destruct (le_lt_dec (nfreq g) last) as [Hl|Hl].
    - (* nfreq g = 0: every entry is 0 *)
      assert (Hz : forall F m, fnth F last m = 0 \/ True) by (intros; right; exact I).
      unfold fnth at 1. unfold rot_field.
      rewrite (nth_overflow (map (rot_row k) E)) by (rewrite map_length; destruct Hs as [-> _]; exact Hl).
      unfold fnth. rewrite (nth_overflow E) by (destruct Hs as [-> _]; exact Hl).
      destruct j; destruct (ridx (ndir g) _ k); destruct (Rle_dec _ 0); cbn; ring.
    - rewrite (rot_field_shifted g E k Hs Hk last j Hl Hj).
      destruct (Rle_dec _ 0); ring. }
  assert (Hterm : forall trig j, (j < ndir g)%nat ->
     tail_dir_term g wdr E trig j = trig (ang th0 (ndir g) j) * X j).
  { intros trig j Hj. unfold tail_dir_term, X. cbv zeta. fold last.
    destruct (Hu j Hj) as [-> ->]. destruct (Rle_dec _ 0); ring. }
  rewrite (rsum_ext _ _ (ndir g) (Hterm' cos)), (rsum_ext _ _ (ndir g) (Hterm' sin)).
  rewrite (rsum_ext _ _ (ndir g) (Hterm cos)), (rsum_ext _ _ (ndir g) (Hterm sin)).
  rewrite (rsum_cos_rot (ndir g) k th0 X Hk), (rsum_sin_rot (ndir g) k th0 X Hk).
  fold (rot_angle k (ndir g)). fold a.
  rewrite cos_plus, sin_plus. unfold rotate2. cbn [fst snd]. f_equal; ring.
Qed.

(* ------------------------------------------------------------------ *)
(* total stress: vector rotates, magnitude invariant, direction + alpha  *)
(* ------------------------------------------------------------------ *)
Theorem total_stress_vec_rot : forall p w depth z0 g x0 E th0 ds k,
  uniform_dirs g th0 ds -> (k < ndir g)%nat -> well_shaped g E ->
  total_stress_vec p (rot_wind w k (ndir g)) depth z0 g x0 (rot_field k E)
  = rotate2 (rot_angle k (ndir g)) (total_stress_vec p w depth z0 g x0 E).
Proof.
  intros p w depth z0 g x0 E th0 ds k Hu Hk Hs.
  assert (HN : (0 < ndir g)%nat) by lia.
  unfold total_stress_vec. cbv zeta.
  rewrite (resolved_stress_rot p g _ th0 ds k _ (st4_input p w depth z0 g E) Hu Hk
             (st4_input_rot p w depth z0 g E th0 ds k Hu Hk Hs)).
  rewrite (tail_stress_rot p w z0 g x0 E th0 ds k Hu Hk Hs).
  rewrite fv_rot, rot_wind_rad by exact HN.
  rewrite cos_plus, sin_plus. unfold rotate2. cbn [fst snd]. f_equal; ring.
Qed.

Lemma rotate2_norm : forall a v,
  snd (rotate2 a v) ^ 2 + fst (rotate2 a v) ^ 2 = snd v ^ 2 + fst v ^ 2.
Proof.
  intros a [e n]. unfold rotate2. cbn [fst snd].
  apply rot_norm. rewrite <- (sin2_cos2 a). unfold Rsqr. ring.
Qed.

Lemma rotate2_nonzero : forall a v, (fst v <> 0 \/ snd v <> 0) ->
  (fst (rotate2 a v) <> 0 \/ snd (rotate2 a v) <> 0).
Proof.
  intros a v H.
  destruct (Req_dec (fst (rotate2 a v)) 0) as [H1|H1]; [|left; exact H1].
  destruct (Req_dec (snd (rotate2 a v)) 0) as [H2|H2]; [|right; exact H2].
  exfalso. pose proof (rotate2_norm a v) as Hn. rewrite H1, H2 in Hn.
  assert (0 <= fst v ^ 2) by apply pow2_ge_0. assert (0 <= snd v ^ 2) by apply pow2_ge_0.
  assert (Hz : snd v ^ 2 + fst v ^ 2 = 0) by lra.
  assert (fst v ^ 2 = 0) by lra. assert (snd v ^ 2 = 0) by lra.
  destruct H as [H|H]; apply H.
  - apply (pow_nonzero _ 2%nat) in H. contradiction.
  - apply (pow_nonzero _ 2%nat) in H. contradiction.
Qed.

(* direction of a rotated vector, in vector form: cos/sin of (dir' in radians) = cos/sin of (dir + a) *)
Lemma dir_deg_rotate : forall a v, (fst v <> 0 \/ snd v <> 0) ->
  let d := dir_deg (snd v) (fst v) in
  let d' := dir_deg (snd (rotate2 a v)) (fst (rotate2 a v)) in
  cos (d' * PI / 180) = cos (d * PI / 180 + a) /\ sin (d' * PI / 180) = sin (d * PI / 180 + a).
Proof.
  intros a v H d d'.
  destruct (dir_deg_spec (fst v) (snd v) H) as [Hc Hs].
  destruct (dir_deg_spec _ _ (rotate2_nonzero a v H)) as [Hc' Hs'].
  fold d in Hc, Hs. fold d' in Hc', Hs'.
  rewrite Hc', Hs', cos_plus, sin_plus, Hc, Hs.
  assert (Hn : sqrt (fst (rotate2 a v) ^ 2 + snd (rotate2 a v) ^ 2) = sqrt (fst v ^ 2 + snd v ^ 2)).
  { f_equal. pose proof (rotate2_norm a v). lra. }
  rewrite Hn. pose proof (norm_pos _ _ H) as Hr.
  destruct v as [e n]. unfold rotate2. cbn [fst snd] in *. split; field; lra.
Qed.

Theorem total_stress_point_rot : forall p w depth z0 g x0 E th0 ds k,
  uniform_dirs g th0 ds -> (k < ndir g)%nat -> well_shaped g E ->
  friction_velocity p w z0 <> 0 ->
  let v := total_stress_vec p w depth z0 g x0 E in
  (fst v <> 0 \/ snd v <> 0) ->
  exists d d',
    total_stress_point p w depth z0 g x0 E = (sqrt (snd v ^ 2 + fst v ^ 2), Some d) /\
    total_stress_point p (rot_wind w k (ndir g)) depth z0 g x0 (rot_field k E)
      = (sqrt (snd v ^ 2 + fst v ^ 2), Some d') /\
    0 <= d' < 360 /\
    cos (d' * PI / 180) = cos ((d + INR k * (360 / INR (ndir g))) * PI / 180) /\
    sin (d' * PI / 180) = sin ((d + INR k * (360 / INR (ndir g))) * PI / 180).
Proof.
  intros p w depth z0 g x0 E th0 ds k Hu Hk Hs Hfv v Hv.
  assert (HN : (0 < ndir g)%nat) by lia.
  unfold total_stress_point. rewrite fv_rot.
  destruct (Req_EM_T (friction_velocity p w z0) 0) as [Hz|_]; [contradiction|].
  cbv zeta. rewrite (total_stress_vec_rot p w depth z0 g x0 E th0 ds k Hu Hk Hs). fold v.
  eexists. eexists. split; [reflexivity|]. split.
  - rewrite rotate2_norm. reflexivity.
  - split; [apply dir_deg_range|].
    rewrite wind_rot_rad by exact HN.
    exact (dir_deg_rotate (rot_angle k (ndir g)) v Hv).
Qed.

(* the function whose root is the roughness length is the same function for the rotated problem
   (the solver therefore visits the same values: roughness, drag and friction velocity coincide) *)
Theorem stress_iteration_function_rot : forall p w depth g x0of E th0 ds k l,
  uniform_dirs g th0 ds -> (k < ndir g)%nat -> well_shaped g E ->
  stress_iteration_function p (rot_wind w k (ndir g)) depth g x0of (rot_field k E) l
  = stress_iteration_function p w depth g x0of E l.
Proof.
  intros p w depth g x0of E th0 ds k l Hu Hk Hs.
  unfold stress_iteration_function. cbv zeta. rewrite fv_rot. f_equal.
  unfold total_stress_point. rewrite fv_rot.
  destruct (Req_EM_T _ 0); [reflexivity|]. cbv zeta. cbn [fst].
  rewrite (total_stress_vec_rot p w depth (exp l) g (x0of (exp l)) E th0 ds k Hu Hk Hs).
  rewrite rotate2_norm. reflexivity.
Qed.

(* any solver, seen as a function of the function it is applied to, returns the same result *)
Theorem solver_ext : forall (solver : (R -> R) -> R) p w depth g x0of E th0 ds k,
  uniform_dirs g th0 ds -> (k < ndir g)%nat -> well_shaped g E ->
  (forall f f', (forall l, f l = f' l) -> solver f = solver f') ->
  solver (stress_iteration_function p (rot_wind w k (ndir g)) depth g x0of (rot_field k E))
  = solver (stress_iteration_function p w depth g x0of E).
Proof.
  intros solver p w depth g x0of E th0 ds k Hu Hk Hs Hext. apply Hext.
  intros l. eapply stress_iteration_function_rot; eassumption.
Qed.
