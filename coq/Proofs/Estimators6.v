(* Proofs about Model/Estimators.v, part 6: mirror symmetry on the uniform grid that starts at 0
   (np.linspace(0, 360, N, endpoint=False)): mirroring the moments reverses the output, D'_j = D_{(N-j) mod N}.

   Done generically: if a grid th' is, modulo 2 pi, a re-indexing of th by a permutation sigma of 0..n-1,
   then every estimator output on th' is the sigma-re-indexed output on th. *)
From Coq Require Import Reals List Arith Lra Lia Bool Permutation.
From OSU.Model Require Import Estimators.
From OSU.Lib Require Import EstAuxSums.
From OSU.Proofs Require Import Estimators Estimators2 Estimators3 Estimators4.
Import ListNotations.
Open Scope R_scope.

Definition perm_list (sg : nat -> nat) (l : list R) : list R :=
  map (fun j => nth (sg j) l 0) (seq 0 (length l)).

Lemma sumR_perm : forall l l', Permutation l l' -> sumR l = sumR l'.
Proof. induction 1; simpl; lra. Qed.

Section PermGrid.
  Variables (n : nat) (sg : nat -> nat) (th th' : list R).
  Hypothesis Hn0 : (0 < n)%nat.
  Hypothesis Hperm : Permutation (map sg (seq 0 n)) (seq 0 n).
  Hypothesis Hl : length th = n.
  Hypothesis Hl' : length th' = n.
  Hypothesis Hcs : forall j, (j < n)%nat ->
    cos (nth j th' 0) = cos (nth (sg j) th 0) /\ sin (nth j th' 0) = sin (nth (sg j) th 0).

  Lemma sg_bound : forall j, (j < n)%nat -> (sg j < n)%nat.
  Proof.
    intros j Hj. assert (In (sg j) (seq 0 n)).
    { eapply Permutation_in; [exact Hperm|]. apply in_map. apply in_seq. lia. }
    apply in_seq in H. lia.
  Qed.

  Lemma sg_surj : forall i, (i < n)%nat -> exists j, (j < n)%nat /\ sg j = i.
  Proof.
    intros i Hi. assert (In i (map sg (seq 0 n))).
    { eapply Permutation_in; [apply Permutation_sym; exact Hperm|]. apply in_seq. lia. }
    apply in_map_iff in H. destruct H as (j & E & Hj). apply in_seq in Hj. exists j. split; [lia|auto].
  Qed.

  Lemma perm_list_length : forall l, length (perm_list sg l) = length l.
  Proof. intros. unfold perm_list. rewrite map_length, seq_length. reflexivity. Qed.

  Lemma sumR_perm_list : forall l, length l = n -> sumR (perm_list sg l) = sumR l.
  Proof.
    intros l Hll. unfold perm_list. rewrite Hll.
    rewrite <- (map_map sg (fun i => nth i l 0)).
    rewrite (sumR_perm _ (map (fun i => nth i l 0) (seq 0 n))) by (apply Permutation_map; exact Hperm).
    rewrite <- Hll. rewrite map_nth_seq. reflexivity.
  Qed.

  Lemma perm_list_map : forall (h : R -> R) l, length l = n -> perm_list sg (map h l) = map h (perm_list sg l).
  Proof.
    intros h l Hll. unfold perm_list. rewrite map_length, map_map, Hll.
    apply map_ext_in. intros j Hj. apply in_seq in Hj.
    rewrite (nth_indep _ 0 (h 0)) by (rewrite map_length, Hll; apply sg_bound; lia).
    apply map_nth.
  Qed.

  Lemma perm_list_In : forall l x, length l = n -> In x (perm_list sg l) <-> In x l.
  Proof.
    intros l x Hll. unfold perm_list. rewrite Hll. split.
    - intro H. apply in_map_iff in H. destruct H as (j & <- & Hj). apply in_seq in Hj.
      apply nth_In. rewrite Hll. apply sg_bound. lia.
    - intro H. destruct (In_nth l x 0 H) as (i & Hi & <-). rewrite Hll in Hi.
      destruct (sg_surj i Hi) as (j & Hj & <-).
      apply in_map_iff. exists j. split; auto. apply in_seq. lia.
  Qed.

  Lemma nth_map0 : forall (g : R -> R) l j, (j < length l)%nat -> nth j (map g l) 0 = g (nth j l 0).
  Proof. intros. rewrite (nth_indep _ 0 (g 0)) by (rewrite map_length; auto). apply map_nth. Qed.

  (* samples of a cos/sin-invariant function on th' = re-indexed samples on th *)
  Lemma map_perm_grid : forall g, cs_inv g -> map g th' = perm_list sg (map g th).
  Proof.
    intros g Hg. unfold perm_list. rewrite map_length, Hl.
    rewrite <- (map_nth_seq (map g th')). rewrite map_length, Hl'.
    apply map_ext_in. intros j Hj. apply in_seq in Hj.
    rewrite nth_map0 by lia. rewrite nth_map0 by (rewrite Hl; apply sg_bound; lia).
    destruct (Hcs j) as [H1 H2]; [lia|]. apply Hg; auto.
  Qed.

  (* ---- MEM ---- *)
  Lemma mem_perm_grid : forall m, mem4 th' m = option_map (perm_list sg) (mem4 th m).
  Proof.
    intros [a1 b1 a2 b2]. unfold mem4, mem_point. cbn [q1 q2 q3 q4].
    set (p := mem_phi1 a1 b1 a2 b2). set (q := mem_phi2 a1 b1 a2 b2). set (nu := mem_num a1 b1 a2 b2).
    assert (Hraw : mem_raw th' a1 b1 a2 b2 = perm_list sg (mem_raw th a1 b1 a2 b2)).
    { unfold mem_raw. cbv zeta. fold p q nu.
      apply (map_perm_grid (fun t => nu / mem_den p q t / PI / 2)).
      intros t t' Hc Hs. rewrite (mem_den_cs p q t t') by auto. reflexivity. }
    assert (Hlen : length (mem_raw th a1 b1 a2 b2) = n).
    { unfold mem_raw. cbv zeta. rewrite map_length. exact Hl. }
    assert (Hnorm : mem_norm (mem_raw th' a1 b1 a2 b2) = mem_norm (mem_raw th a1 b1 a2 b2)).
    { rewrite Hraw. unfold mem_norm. rewrite perm_list_length, sumR_perm_list by auto. reflexivity. }
    assert (G : mem_guard th' a1 b1 a2 b2 = mem_guard th a1 b1 a2 b2).
    { rewrite !mem_guard_unfold. f_equal; [|rewrite Hnorm; reflexivity]. fold p q.
      assert (Ex : forall l, existsb (fun t => if Req_EM_T (mem_den p q t) 0 then true else false) l
                             = existsb (fun v => if Req_EM_T v 0 then true else false) (map (mem_den p q) l)).
      { intro l. rewrite existsb_map. reflexivity. }
      rewrite !Ex. rewrite (map_perm_grid (mem_den p q)) by apply mem_den_cs.
      apply existsb_In_equiv. intro x. apply perm_list_In. rewrite map_length. exact Hl. }
    rewrite G. destruct (mem_guard th a1 b1 a2 b2); [|reflexivity].
    simpl. f_equal. rewrite Hnorm, Hraw. symmetry. apply perm_list_map. exact Hlen.
  Qed.

  (* ---- MEM2 with constant increments ---- *)
  Variable c : R.
  Hypothesis Hc : 0 < c.
  Let d := map (fun _ : R => c) th.

  Lemma pg_d_pos : Forall (fun x => 0 < x) d.
  Proof. unfold d. apply Forall_forall. intros x Hx. apply in_map_iff in Hx. destruct Hx as (_ & <- & _). auto. Qed.
  Lemma pg_d_len : length d = length th.
  Proof. unfold d. apply map_length. Qed.
  Lemma pg_d_len' : length d = length th'.
  Proof. rewrite pg_d_len, Hl, Hl'. reflexivity. Qed.
  Lemma pg_th_ne : th <> [].
  Proof. intro E. rewrite E in Hl. simpl in Hl. lia. Qed.
  Lemma pg_th'_ne : th' <> [].
  Proof. intro E. rewrite E in Hl'. simpl in Hl'. lia. Qed.

  Lemma pg_wsum : forall g, cs_inv g -> wsum (map g th') d = wsum (map g th) d.
  Proof.
    intros g Hg.
    assert (E : d = map (fun _ : R => c) th').
    { unfold d. apply map_const_eq. rewrite Hl, Hl'. reflexivity. }
    rewrite E at 1. unfold d. rewrite !wsum_map_const_weights. f_equal.
    rewrite (map_perm_grid g) by auto. apply sumR_perm_list. rewrite map_length. exact Hl.
  Qed.

  Lemma pg_Ef_cs : forall l, cs_inv (Ef l).
  Proof. intros l t t' H1 H2. unfold Ef. rewrite (inner_cs l t t') by auto. reflexivity. Qed.

  Lemma pg_Zf : forall l, Zf l d th' = Zf l d th.
  Proof. intro l. unfold Zf. apply pg_wsum. apply pg_Ef_cs. Qed.

  Lemma pg_Pf : forall m l, Pf m l d th' = Pf m l d th.
  Proof.
    intros m l. unfold Pf. apply (pg_wsum (fun t => tw m t * Ef l t)).
    intros t t' H1 H2. rewrite (tw_cs m t t'), (pg_Ef_cs l t t') by auto. reflexivity.
  Qed.

  Lemma dist_perm_grid : forall l, dist l d th' = perm_list sg (dist l d th).
  Proof.
    intro l.
    rewrite (dist_closed l d th') by (auto using pg_th'_ne, pg_d_len', pg_d_pos).
    rewrite (dist_closed l d th) by (auto using pg_th_ne, pg_d_len, pg_d_pos).
    rewrite pg_Zf.
    apply (map_perm_grid (fun t => Ef l t / Zf l d th)).
    intros t t' H1 H2. rewrite (pg_Ef_cs l t t') by auto. reflexivity.
  Qed.

  Lemma constraints_perm_grid : forall l mo, constraints l mo d th' = constraints l mo d th.
  Proof.
    intros l mo.
    assert (E : forall m, get4 (constraints l mo d th') m = get4 (constraints l mo d th) m).
    { intro m. rewrite !constraints_closed by (auto using pg_th'_ne, pg_th_ne, pg_d_len', pg_d_len, pg_d_pos).
      rewrite pg_Pf, pg_Zf. reflexivity. }
    pose proof (E 0%nat) as E0. pose proof (E 1%nat) as E1. pose proof (E 2%nat) as E2. pose proof (E 3%nat) as E3.
    simpl in E0, E1, E2, E3. apply V4_ext; assumption.
  Qed.
End PermGrid.

(* ---------------- the reversal j -> (n - j) mod n ---------------- *)
Definition rev_idx (n j : nat) : nat := if (j <? n)%nat then ((n - j) mod n)%nat else j.
Definition revl_list (l : list R) : list R := perm_list (rev_idx (length l)) l.

Lemma rev_idx_small : forall n j, (0 < j < n)%nat -> rev_idx n j = (n - j)%nat.
Proof.
  intros n j H. unfold rev_idx. destruct (Nat.ltb_spec j n); [|lia]. apply Nat.mod_small. lia.
Qed.
Lemma rev_idx_0 : forall n, (0 < n)%nat -> rev_idx n 0 = 0%nat.
Proof.
  intros n H. unfold rev_idx. destruct (Nat.ltb_spec 0 n); [|lia].
  rewrite Nat.sub_0_r. apply Nat.mod_same. lia.
Qed.
Lemma rev_idx_big : forall n j, (n <= j)%nat -> rev_idx n j = j.
Proof. intros n j H. unfold rev_idx. destruct (Nat.ltb_spec j n); [lia|reflexivity]. Qed.

Lemma rev_idx_perm : forall n, (0 < n)%nat -> Permutation (map (rev_idx n) (seq 0 n)) (seq 0 n).
Proof.
  intros n Hn. apply nat_bijection_Permutation.
  - intros j Hj. destruct (Nat.eq_dec j 0) as [->|N0].
    + rewrite rev_idx_0; auto.
    + rewrite rev_idx_small by lia. lia.
  - intros x y E.
    destruct (lt_dec x n) as [Lx|Lx]; destruct (lt_dec y n) as [Ly|Ly].
    + destruct (Nat.eq_dec x 0) as [->|Nx]; destruct (Nat.eq_dec y 0) as [->|Ny]; auto.
      * rewrite rev_idx_0, rev_idx_small in E by lia. lia.
      * rewrite rev_idx_0, rev_idx_small in E by lia. lia.
      * rewrite !rev_idx_small in E by lia. lia.
    + rewrite (rev_idx_big n y) in E by lia.
      destruct (Nat.eq_dec x 0) as [->|Nx]; [rewrite rev_idx_0 in E by lia | rewrite rev_idx_small in E by lia]; lia.
    + rewrite (rev_idx_big n x) in E by lia.
      destruct (Nat.eq_dec y 0) as [->|Ny]; [rewrite rev_idx_0 in E by lia | rewrite rev_idx_small in E by lia]; lia.
    + rewrite !rev_idx_big in E by lia. auto.
Qed.

Section MirrorUniform.
  Variables (dl : R) (n : nat).
  Hypothesis Hn0 : (0 < n)%nat.
  Hypothesis Hn : INR n * dl = 2 * PI.
  Let th := ugrid 0 dl n.

  Lemma negg_cs : forall j, (j < n)%nat ->
    cos (nth j (negg th) 0) = cos (nth (rev_idx n j) th 0) /\ sin (nth j (negg th) 0) = sin (nth (rev_idx n j) th 0).
  Proof.
    intros j Hj. unfold negg, th, ugrid. rewrite map_map.
    rewrite nth_map_seq by auto.
    destruct (Nat.eq_dec j 0) as [->|N0].
    - rewrite rev_idx_0 by auto. rewrite nth_map_seq by auto. simpl.
      replace (- (0 + 0 * dl)) with (0 + 0 * dl) by ring. auto.
    - rewrite rev_idx_small by lia. rewrite nth_map_seq by lia.
      rewrite minus_INR by lia.
      replace (0 + (INR n - INR j) * dl) with (- (0 + INR j * dl) + 2 * PI) by (rewrite <- Hn; ring).
      rewrite cos_2PI_shift, sin_2PI_shift. auto.
  Qed.

  Lemma negg_length : length (negg th) = n.
  Proof. unfold negg, th. rewrite map_length. apply ugrid_length. Qed.

  (* MEM: mirrored moments give the reversed distribution *)
  Theorem mem_mirror_uniform : forall m, mem4 th (mirm m) = option_map (perm_list (rev_idx n)) (mem4 th m).
  Proof.
    intro m. rewrite mem_mirror_neg.
    apply (mem_perm_grid n (rev_idx n) th (negg th)); auto.
    - apply rev_idx_perm; auto.
    - apply ugrid_length.
    - apply negg_length.
    - apply negg_cs.
  Qed.

  Variable c : R.
  Hypothesis Hc : 0 < c.
  Let d := map (fun _ : R => c) th.

  Theorem dist_mirror_uniform : forall l, dist (mirm l) d th = perm_list (rev_idx n) (dist l d th).
  Proof.
    intro l. rewrite dist_mirror_neg.
    apply (dist_perm_grid n (rev_idx n) th (negg th)); auto.
    - apply rev_idx_perm; auto.
    - apply ugrid_length.
    - apply negg_length.
    - apply negg_cs.
  Qed.

  Theorem constraints_mirror_uniform : forall l mo,
    constraints (mirm l) (mirm mo) d th = mirm (constraints l mo d th).
  Proof.
    intros. rewrite constraints_mirror_neg. f_equal.
    apply (constraints_perm_grid n (rev_idx n) th (negg th)); auto.
    - apply rev_idx_perm; auto.
    - apply ugrid_length.
    - apply negg_length.
    - apply negg_cs.
  Qed.

  Corollary residual_mirror_uniform : forall l mo,
    norm4 (constraints (mirm l) (mirm mo) d th) = norm4 (constraints l mo d th).
  Proof. intros. rewrite constraints_mirror_uniform. apply norm4_mir. Qed.
End MirrorUniform.

(* what the re-indexed lists are, entry by entry *)
Lemma rotl_list_nth : forall k l j, (j < length l)%nat ->
  nth j (rotl_list k l) 0 = nth ((j + length l - k) mod length l) l 0.
Proof.
  intros k l j Hj. unfold rotl_list.
  rewrite (nth_map_seq (fun j0 => nth ((j0 + length l - k) mod length l) l 0)) by auto. reflexivity.
Qed.

Lemma revl_nth : forall l j, (0 < j < length l)%nat ->
  nth j (perm_list (rev_idx (length l)) l) 0 = nth (length l - j) l 0.
Proof.
  intros l j Hj. unfold perm_list.
  rewrite (nth_map_seq (fun j0 => nth (rev_idx (length l) j0) l 0)) by lia.
  rewrite rev_idx_small by lia. reflexivity.
Qed.
