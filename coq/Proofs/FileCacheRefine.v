(* Refinement: for fault-free requests the concrete file cache behaves as the abstract LRU list
   of Model/FileCacheSpec.v. *)
From Coq Require Import ZArith List Bool Arith Lia Permutation Sorted.
From OSU.Model Require Import FileCache FileCacheSpec.
From OSU.Proofs Require Import FileCacheBase FileCacheInv FileCacheGet FileCacheHist FileCacheReq FileCacheFaults.
Import ListNotations.
Open Scope Z_scope.

Ltac splits := repeat match goal with |- _ /\ _ => split end.

Definition tstamp (d : dir) (n : name) : Z :=
  match dfind d n with Some f => ftime f | None => 0 end.

Definition older (d : dir) (p q : name * content) : Prop := tstamp d (fst p) < tstamp d (fst q).

(* the abstract list describes the directory: same contents, recency order = time-stamp order *)
Record Rel (d : dir) (a : acache) : Prop := mkRel {
  rel_nodup : NoDup (anames a);
  rel_cache : forall n, In n (anames a) -> is_cache_name n = true;
  rel_content : forall n c, In (n, c) a -> exists f, dfind d n = Some f /\ fcontent f = c;
  rel_sorted : StronglySorted (older d) a
}.

Definition Ref (s : state) (A : aspec) : Prop :=
  Rel (disk s) (amap A) /\ (forall n, In n (entries s) <-> In n (anames (amap A))) /\ acap A = maxb s.

(* ------------------------------------------------------------------ *)
(* abstract-list lemmas                                                 *)
(* ------------------------------------------------------------------ *)
Lemma in_anames a n : In n (anames a) <-> exists c, In (n, c) a.
Proof.
  unfold anames. rewrite in_map_iff. split.
  - intros [[m c] [E I]]. cbn in E. subst. eauto.
  - intros [c I]. exists (n, c). auto.
Qed.

Lemma afind_in a n c : afind a n = Some c -> In (n, c) a.
Proof.
  induction a as [|[m c'] a IH]; cbn; [discriminate|].
  destruct (name_eqb_spec m n) as [->|Hne]; [intros E; injection E as ->; now left | intros H; right; now apply IH].
Qed.

Lemma in_afind a n c : NoDup (anames a) -> In (n, c) a -> afind a n = Some c.
Proof.
  induction a as [|[m c'] a IH]; cbn; intros Hnd Hin; [contradiction|].
  inversion Hnd as [|? ? Hn Hd]; subst. destruct Hin as [E|Hin].
  - injection E as -> ->. now rewrite name_eqb_refl.
  - destruct (name_eqb_spec m n) as [->|Hne]; [|now apply IH].
    exfalso. apply Hn. apply in_anames. eauto.
Qed.

Lemma afind_none a n : afind a n = None <-> ~ In n (anames a).
Proof.
  induction a as [|[m c] a IH]; cbn; [tauto|].
  destruct (name_eqb_spec m n) as [->|Hne].
  - split; [discriminate | intros H; exfalso; apply H; now left].
  - rewrite IH. split; [intros H [E|I]; [congruence | contradiction] | intros H I; apply H; now right].
Qed.

Lemma in_aremove a n p : In p (aremove a n) <-> In p a /\ fst p <> n.
Proof.
  unfold aremove. rewrite filter_In. split; intros [A B]; split; try assumption.
  - destruct (name_eqb_spec (fst p) n); [discriminate | assumption].
  - destruct (name_eqb_spec (fst p) n); [contradiction | reflexivity].
Qed.

Lemma anames_aremove a n m : In m (anames (aremove a n)) <-> In m (anames a) /\ m <> n.
Proof.
  rewrite !in_anames. split.
  - intros [c H]. apply in_aremove in H. cbn in H. destruct H as [H1 H2]. split; eauto.
  - intros [[c H] Hne]. exists c. apply in_aremove. cbn. auto.
Qed.

Lemma nodup_aremove a n : NoDup (anames a) -> NoDup (anames (aremove a n)).
Proof.
  induction a as [|[m c] a IH]; cbn; intros H; [constructor|].
  inversion H as [|? ? Hn Hd]; subst. destruct (name_eqb m n); cbn; [now apply IH|].
  constructor; [|now apply IH]. intros I. apply anames_aremove in I. tauto.
Qed.

Lemma anames_aadd a n c m : In m (anames (aadd a n c)) <-> In m (anames a) \/ m = n.
Proof.
  unfold aadd, anames. rewrite map_app, in_app_iff. fold (anames (aremove a n)). rewrite anames_aremove. cbn.
  destruct (name_eqb_spec m n) as [->|Hne]; intuition congruence.
Qed.

Lemma nodup_snoc (l : list name) x : NoDup l -> ~ In x l -> NoDup (l ++ [x]).
Proof.
  induction l as [|a l IH]; cbn; intros Hd Hn; [constructor; [tauto | constructor]|].
  inversion Hd as [|? ? Ha Hd']; subst. constructor.
  - rewrite in_app_iff. cbn. intros [I|[E|[]]]; [contradiction | subst; apply Hn; now left].
  - apply IH; [assumption|]. intros I. apply Hn. now right.
Qed.

Lemma nodup_aadd a n c : NoDup (anames a) -> NoDup (anames (aadd a n c)).
Proof.
  intros H. unfold aadd, anames. rewrite map_app. cbn. apply nodup_snoc.
  - now apply nodup_aremove.
  - fold (anames (aremove a n)). rewrite anames_aremove. tauto.
Qed.

Lemma sorted_aremove d a n : StronglySorted (older d) a -> StronglySorted (older d) (aremove a n).
Proof.
  induction 1 as [|p a Hs IH Hall]; cbn; [constructor|].
  destruct (name_eqb (fst p) n); cbn; [assumption|]. constructor; [assumption|].
  rewrite Forall_forall in *. intros x Hx. apply in_aremove in Hx. now apply Hall.
Qed.

Lemma sorted_snoc d a p : StronglySorted (older d) a -> (forall x, In x a -> older d x p) ->
  StronglySorted (older d) (a ++ [p]).
Proof.
  induction 1 as [|q a Hs IH Hall]; cbn; intros H; [constructor; constructor|].
  constructor.
  - apply IH. intros x Hx. apply H. now right.
  - rewrite Forall_forall in *. intros x Hx. apply in_app_or in Hx. destruct Hx as [Hx|[<-|[]]]; [now apply Hall | apply H; now left].
Qed.

Lemma sorted_ext d d' a : StronglySorted (older d) a -> (forall n, In n (anames a) -> tstamp d' n = tstamp d n) ->
  StronglySorted (older d') a.
Proof.
  induction 1 as [|p a Hs IH Hall]; intros H; [constructor|]. constructor.
  - apply IH. intros n Hn. apply H. now right.
  - rewrite Forall_forall in *. intros x Hx. specialize (Hall x Hx). unfold older in *.
    rewrite (H (fst p)) by now left. rewrite (H (fst x)); [assumption|]. right. now apply in_map.
Qed.

(* ------------------------------------------------------------------ *)
(* the directory changes at one name: the list changes by one aadd      *)
(* ------------------------------------------------------------------ *)
Lemma Rel_put d d' a n c t :
  Rel d a -> is_cache_name n = true ->
  (forall m, In m (anames a) -> m <> n -> dfind d' m = dfind d m) ->
  dfind d' n = Some (mkfile c t) ->
  (forall m, In m (anames a) -> tstamp d m < t) ->
  Rel d' (aadd a n c).
Proof.
  intros [Hnd Hca Hco Hso] Hc Hfr Hn Hnew. constructor.
  - now apply nodup_aadd.
  - intros m Hm. apply anames_aadd in Hm. destruct Hm as [Hm| ->]; [now apply Hca | assumption].
  - intros m c' Hin. unfold aadd in Hin. apply in_app_or in Hin. destruct Hin as [Hin|[E|[]]].
    + apply in_aremove in Hin. cbn in Hin. destruct Hin as [Hin Hne].
      destruct (Hco m c' Hin) as [f [Hf Hfc]]. exists f. split; [|assumption].
      rewrite Hfr; [assumption | apply in_anames; eauto | assumption].
    + injection E as <- <-. eexists. split; [exact Hn | reflexivity].
  - unfold aadd. apply sorted_snoc.
    + apply (sorted_ext d); [now apply sorted_aremove|].
      intros m Hm. apply anames_aremove in Hm. destruct Hm as [Hm Hne]. unfold tstamp. now rewrite Hfr.
    + intros x Hx. apply in_aremove in Hx. destruct Hx as [Hx Hne]. unfold older, tstamp at 2. cbn [fst]. rewrite Hn. cbn.
      assert (In (fst x) (anames a)) as Hin by (apply in_anames; exists (snd x); now destruct x).
      unfold tstamp. rewrite Hfr by assumption. apply (Hnew (fst x) Hin).
Qed.

Lemma Rel_frame d d' a : Rel d a -> (forall m, In m (anames a) -> dfind d' m = dfind d m) -> Rel d' a.
Proof.
  intros [Hnd Hca Hco Hso] Hfr. constructor; try assumption.
  - intros n c Hin. destruct (Hco n c Hin) as [f [Hf Hfc]]. exists f. split; [|assumption].
    rewrite Hfr; [assumption | apply in_anames; eauto].
  - apply (sorted_ext d); [assumption|]. intros n Hn. unfold tstamp. now rewrite Hfr.
Qed.

Lemma ause_is_aadd a n c : afind a n = Some c -> ause a n = aadd a n c.
Proof. intros H. unfold ause, aadd. now rewrite H. Qed.

Lemma W_tstamp_lt s n : W s -> forall f, dfind (disk s) n = Some f -> tstamp (disk s) n < clock s.
Proof. intros HW f Hf. unfold tstamp. rewrite Hf. apply (w_times s HW n f Hf). Qed.

Lemma Rel_tstamp_lt s a : W s -> Rel (disk s) a -> forall m, In m (anames a) -> tstamp (disk s) m < clock s.
Proof.
  intros HW HR m Hm. apply in_anames in Hm. destruct Hm as [c Hin].
  destruct (rel_content _ _ HR m c Hin) as [f [Hf _]]. now apply (W_tstamp_lt s m HW f).
Qed.

(* ------------------------------------------------------------------ *)
(* eviction = dropping the least recently used entries                  *)
(* ------------------------------------------------------------------ *)
Lemma Rel_tail d p a : Rel d (p :: a) -> Rel d a.
Proof.
  intros [Hnd Hca Hco Hso]. constructor.
  - cbn in Hnd. now inversion Hnd.
  - intros n Hn. apply Hca. now right.
  - intros n c Hin. apply Hco. now right.
  - now inversion Hso.
Qed.

Lemma asize_total d a : Rel d a -> total_size d (anames a) = asize a.
Proof.
  induction a as [|[n c] a IH]; intros HR; [reflexivity|].
  cbn [anames map asize fold_right fst snd]. rewrite total_size_cons.
  fold (anames a). fold (asize a). rewrite (IH (Rel_tail _ _ _ HR)).
  destruct (rel_content _ _ HR n c (or_introl eq_refl)) as [f [Hf Hc]].
  unfold fsize. rewrite Hf, Hc. reflexivity.
Qed.

Definition same_names (s : state) (a : acache) : Prop := forall n, In n (entries s) <-> In n (anames a).

Lemma entries_perm s a : W s -> Rel (disk s) a -> same_names s a -> Permutation (entries s) (anames a).
Proof. intros HW HR Hs. apply NoDup_Permutation; [apply (w_entries s HW) | apply (rel_nodup _ _ HR) | exact Hs]. Qed.

Lemma size_refines s a : W s -> Rel (disk s) a -> same_names s a -> cache_size s = asize a.
Proof.
  intros HW HR Hs. unfold cache_size. rewrite (total_size_perm _ _ _ (entries_perm s a HW HR Hs)).
  now apply asize_total.
Qed.

Lemma oldest_is_head s p a : W s -> Rel (disk s) (p :: a) -> same_names s (p :: a) -> oldest s = Some (fst p).
Proof.
  intros HW HR Hs.
  assert (Hp : In (fst p) (entries s)) by (apply Hs; now left).
  destruct p as [n c]. cbn [fst] in *.
  destruct (rel_content _ _ HR n c (or_introl eq_refl)) as [f [Hf Hc]].
  destruct (oldest s) as [n0|] eqn:Eo.
  - destruct (oldest_spec s n0 Eo) as [Hin0 [f0 [Hf0 Hmin]]].
    destruct (name_eqb_spec n0 n) as [->|Hne]; [reflexivity|]. exfalso.
    apply Hs in Hin0. destruct Hin0 as [E|Hin0]; [cbn in E; congruence|].
    pose proof (rel_sorted _ _ HR) as Hso. inversion Hso as [|? ? _ Hall]; subst.
    rewrite Forall_forall in Hall. apply in_anames in Hin0. destruct Hin0 as [c0 Hin0].
    specialize (Hall (n0, c0) Hin0). unfold older, tstamp in Hall. cbn [fst] in Hall. rewrite Hf, Hf0 in Hall.
    specialize (Hmin n f Hp Hf). lia.
  - exfalso. unfold oldest in Eo. destruct (oldest_aux (disk s) (entries s) None) as [[x t]|] eqn:E; [discriminate|].
    destruct (oldest_aux_none _ _ _ E) as [_ B]. specialize (B n Hp). congruence.
Qed.

Lemma remove_head_refines s p a : W s -> Rel (disk s) (p :: a) -> same_names s (p :: a) ->
  Rel (disk (remove_item s (fst p))) a /\ same_names (remove_item s (fst p)) a.
Proof.
  intros HW HR Hs. assert (Hp : In (fst p) (entries s)) by (apply Hs; now left).
  apply mem_true in Hp as Hm.
  assert (Hnot : ~ In (fst p) (anames a)).
  { pose proof (rel_nodup _ _ HR) as Hnd. cbn in Hnd. now inversion Hnd. }
  unfold remove_item. rewrite Hm. cbn [disk entries set_disk set_entries]. split.
  - apply (Rel_frame (disk s)); [now apply (Rel_tail _ p)|].
    intros m Hmn. apply dfind_ddel_other. intros ->. contradiction.
  - intros n. split.
    + intros H. apply in_remove_name in H. destruct H as [H Hne]. apply Hs in H.
      destruct H as [E|I]; [congruence | assumption].
    + intros I. apply in_remove_name. split; [apply Hs; now right | intros ->; contradiction].
Qed.

Lemma evict_loop_refines fuel : forall s a,
  W s -> Rel (disk s) a -> same_names s a ->
  Rel (disk (evict_loop fuel s)) (adrop fuel (maxb s) a) /\
  same_names (evict_loop fuel s) (adrop fuel (maxb s) a) /\ maxb (evict_loop fuel s) = maxb s.
Proof.
  induction fuel as [|fuel IH]; intros s a HW HR Hs; cbn [evict_loop adrop]; [auto|].
  rewrite (size_refines s a HW HR Hs).
  destruct (asize a >? maxb s); [|auto].
  destruct a as [|p a].
  - assert (entries s = []) as He.
    { destruct (entries s) as [|x l] eqn:E; [reflexivity|]. exfalso. apply (proj1 (Hs x)). rewrite E. now left. }
    unfold oldest. rewrite He. cbn. auto.
  - rewrite (oldest_is_head s p a HW HR Hs).
    destruct (remove_head_refines s p a HW HR Hs) as [HR' Hs'].
    destruct (IH (remove_item s (fst p)) a (W_remove_item s (fst p) HW) HR' Hs') as [A [B Cc]].
    rewrite remove_item_maxb in *. auto.
Qed.

Lemma evict_refines s a : W s -> Rel (disk s) a -> same_names s a ->
  Rel (disk (evict s)) (adrop (length a) (maxb s) a) /\
  same_names (evict s) (adrop (length a) (maxb s) a) /\ maxb (evict s) = maxb s.
Proof.
  intros HW HR Hs. unfold evict.
  replace (length (entries s)) with (length a).
  - now apply evict_loop_refines.
  - rewrite (Permutation_length (entries_perm s a HW HR Hs)). unfold anames. now rewrite map_length.
Qed.

(* ------------------------------------------------------------------ *)
(* fault-free requests                                                  *)
(* ------------------------------------------------------------------ *)
Definition plain (q : req) : Prop :=
  (q_validate q = None \/ q_validate q = Some VOk) /\ (exists v, q_out q = DOk v) /\ q_post q <> Some false.

Lemma is_hit_ext a a' q : (forall n, In n (anames a) <-> In n (anames a')) -> is_hit a q = is_hit a' q.
Proof.
  intros H. unfold is_hit. destruct (mem (q_name q) (anames a)) eqn:E1, (mem (q_name q) (anames a')) eqn:E2; try reflexivity.
  - apply mem_true in E1. apply H in E1. apply mem_true in E1. congruence.
  - apply mem_true in E2. apply H in E2. apply mem_true in E2. congruence.
Qed.

Lemma anames_ause a n m : In m (anames (ause a n)) <-> In m (anames a).
Proof.
  unfold ause. destruct (afind a n) as [c|] eqn:E; [|tauto].
  change (aremove a n ++ [(n, c)]) with (aadd a n c). rewrite anames_aadd.
  apply afind_in in E. assert (In n (anames a)) by (apply in_anames; eauto).
  split; [intros [H1| ->]; assumption | tauto].
Qed.

Lemma classify_refines l : forall s a,
  W s -> Rel (disk s) a -> same_names s a -> NoDup (map q_name l) -> (forall q, In q l -> plain q) ->
  exists s1,
    classify s l = Some (s1, filter (fun q => negb (is_hit a q)) l) /\
    W s1 /\ Rel (disk s1) (fold_left (fun a q => ause a (q_name q)) (filter (is_hit a) l) a) /\
    entries s1 = entries s /\ maxb s1 = maxb s /\ clock s <= clock s1 /\ alive s1 = alive s /\
    par s1 = par s /\ allow s1 = allow s.
Proof.
  induction l as [|q l IH]; intros s a HW HR Hs Hnd Hpl.
  - exists s. cbn [classify filter fold_left]. splits; try reflexivity; try assumption; try lia.
  - cbn [map] in Hnd. inversion Hnd as [|? ? Hnotin Hnd']; subst.
    assert (Hpl' : forall q', In q' l -> plain q') by (intros q' Hq'; apply Hpl; now right).
    destruct (Hpl q (or_introl eq_refl)) as [Hv _].
    cbn [classify filter].
    destruct (mem (q_name q) (entries s)) eqn:Em.
    + (* hit *)
      assert (Hin : In (q_name q) (anames a)) by (apply Hs; now apply mem_true).
      assert (Hh : is_hit a q = true) by (unfold is_hit; now apply mem_true).
      rewrite Hh. cbn [negb].
      apply in_anames in Hin as Hc. destruct Hc as [c Hc].
      destruct (rel_content _ _ HR _ _ Hc) as [f [Hf Hfc]].
      assert (Hbr : match q_validate q with
                    | Some VReject | Some VIOError => @None (state * list req)
                    | _ => Some (s, [])
                    end <> None -> True) by trivial. clear Hbr.
      set (s0 := touch_state s (q_name q) f (clock s)).
      assert (HW0 : W s0) by (apply W_touch; auto).
      assert (HR0 : Rel (disk s0) (ause a (q_name q))).
      { rewrite (ause_is_aadd a (q_name q) c (in_afind a _ _ (rel_nodup _ _ HR) Hc)).
        apply (Rel_put (disk s) (disk s0) a (q_name q) c (clock s) HR eq_refl).
        - intros m _ Hne. unfold s0, touch_state. cbn [disk tick set_disk]. now apply dfind_dupd_other.
        - unfold s0, touch_state. cbn [disk tick set_disk]. rewrite dfind_dupd_same. now rewrite Hfc.
        - now apply Rel_tstamp_lt. }
      assert (Hs0 : same_names s0 (ause a (q_name q))).
      { intros n. unfold s0, touch_state. cbn [entries tick set_disk]. rewrite anames_ause. apply Hs. }
      destruct (IH s0 (ause a (q_name q)) HW0 HR0 Hs0 Hnd' Hpl') as [s1 [Hc1 [W1 [R1 [E1 [M1 [C1 [A1 [P1 L1]]]]]]]]].
      exists s1.
      assert (Hfil1 : filter (fun q0 => negb (is_hit a q0)) l = filter (fun q0 => negb (is_hit (ause a (q_name q)) q0)) l).
      { apply filter_ext. intros q0. f_equal. apply is_hit_ext. intros n. symmetry. apply anames_ause. }
      assert (Hfil2 : filter (is_hit a) l = filter (is_hit (ause a (q_name q))) l).
      { apply filter_ext. intros q0. apply is_hit_ext. intros n. symmetry. apply anames_ause. }
      rewrite Hfil1, Hfil2. cbn [fold_left].
      assert (Hcl : classify s (q :: l) = Some (s1, filter (fun q0 => negb (is_hit (ause a (q_name q)) q0)) l)).
      { cbn [classify]. rewrite Em, Hf. fold s0. unfold s0 in Hc1. unfold touch_state in Hc1. rewrite Hc1.
        destruct Hv as [-> | ->]; reflexivity. }
      cbn [classify] in Hcl. rewrite Em in Hcl.
      split; [exact Hcl|].
      assert (Hck : clock s0 = clock s + 1) by reflexivity.
      assert (He0 : entries s0 = entries s) by reflexivity.
      assert (Hm0 : maxb s0 = maxb s) by reflexivity.
      assert (Ha0 : alive s0 = alive s) by reflexivity.
      assert (Hp0 : par s0 = par s) by reflexivity.
      assert (Hl0 : allow s0 = allow s) by reflexivity.
      splits; try assumption; try congruence; try lia.
    + (* miss *)
      assert (Hnin : ~ In (q_name q) (anames a)) by (intros H; apply Hs in H; apply mem_true in H; congruence).
      assert (Hh : is_hit a q = false) by (unfold is_hit; now apply mem_false).
      rewrite Hh. cbn [negb].
      destruct (IH s a HW HR Hs Hnd' Hpl') as [s1 [Hc1 [W1 [R1 [E1 [M1 [C1 [A1 [P1 L1]]]]]]]]].
      exists s1. rewrite Hc1. splits; try assumption; try reflexivity.
Qed.

Lemma download_refines ms : forall s a,
  W s -> Rel (disk s) a -> (forall q, In q ms -> plain q) ->
  exists s2,
    download s ms = (s2, map (fun _ => true) ms, DlOk) /\
    Rel (disk s2) (fold_left (fun a q => aadd a (q_name q) (delivered q)) ms a).
Proof.
  induction ms as [|q ms IH]; intros s a HW HR Hpl.
  - exists s. split; [reflexivity | assumption].
  - destruct (Hpl q (or_introl eq_refl)) as [_ [[v Ho] Hp]].
    cbn [download map fold_left].
    destruct (worker s q) as [[s1 r] c] eqn:Ew.
    destruct (worker_props _ _ _ _ _ HW Ew) as [W1 _].
    assert (Hres : r = Some true /\ c = false /\
                   disk s1 = dupd (ddel (disk s) (q_tmp q)) (q_name q) (mkfile (delivered q) (clock s))).
    { unfold worker in Ew. rewrite Ho in Ew. unfold delivered. rewrite Ho.
      destruct (q_post q) as [[|]|]; [| congruence |]; injection Ew as <- <- <-; repeat split; reflexivity. }
    destruct Hres as [-> [-> Hd]].
    assert (HR1 : Rel (disk s1) (aadd a (q_name q) (delivered q))).
    { apply (Rel_put (disk s) (disk s1) a (q_name q) (delivered q) (clock s) HR eq_refl).
      - intros m Hm Hne. rewrite Hd. rewrite dfind_dupd_other by assumption. apply dfind_ddel_other.
        intros ->. pose proof (rel_cache _ _ HR _ Hm). discriminate.
      - rewrite Hd. apply dfind_dupd_same.
      - now apply Rel_tstamp_lt. }
    destruct (IH s1 _ W1 HR1 (fun q' Hq' => Hpl q' (or_intror Hq'))) as [s2 [Hd2 HR2]].
    exists s2. rewrite Hd2. split; [reflexivity | assumption].
Qed.

Lemma register_all_true ms : forall s paths,
  register s paths ms (map (fun _ => true) ms)
  = (set_entries s (fold_left (fun e q => add_name (q_name q) e) ms (entries s)), paths).
Proof.
  induction ms as [|q ms IH]; intros s paths; cbn [register map fold_left].
  - destruct s; reflexivity.
  - rewrite IH. reflexivity.
Qed.

Lemma in_fold_add_name ms : forall e n,
  In n (fold_left (fun e q => add_name (q_name q) e) ms e) <-> In n e \/ In n (map q_name ms).
Proof.
  induction ms as [|q ms IH]; intros e n; cbn [fold_left map]; [cbn; tauto|].
  rewrite IH, in_add_name. cbn. intuition congruence.
Qed.

Lemma in_fold_aadd ms : forall a n,
  In n (anames (fold_left (fun a q => aadd a (q_name q) (delivered q)) ms a)) <-> In n (anames a) \/ In n (map q_name ms).
Proof.
  induction ms as [|q ms IH]; intros a n; cbn [fold_left map]; [cbn; tauto|].
  rewrite IH, anames_aadd. cbn. intuition congruence.
Qed.

Lemma in_fold_ause hs : forall a n,
  In n (anames (fold_left (fun a q => ause a (q_name q)) hs a)) <-> In n (anames a).
Proof.
  induction hs as [|q hs IH]; intros a n; cbn [fold_left]; [tauto|]. rewrite IH. apply anames_ause.
Qed.

Lemma asize_of_total d a l : Rel d a -> (forall n, In n l -> In n (anames a)) -> total_size d l = asize_of a l.
Proof.
  intros HR. induction l as [|n l IH]; intros H; [reflexivity|].
  rewrite total_size_cons. cbn [asize_of fold_right]. fold (asize_of a l).
  rewrite IH by (intros m Hm; apply H; now right).
  assert (In n (anames a)) as Hn by (apply H; now left). apply in_anames in Hn. destruct Hn as [c Hc].
  rewrite (in_afind a n c (rel_nodup _ _ HR) Hc).
  destruct (rel_content _ _ HR n c Hc) as [f [Hf Hfc]]. unfold fsize. now rewrite Hf, Hfc.
Qed.

(* The concrete request refines the abstract one. *)
Theorem get_refines s A l :
  Inv s -> alive s = true -> Ref s A -> NoDup (map q_name l) -> (forall q, In q l -> plain q) ->
  Ref (fst (get s l)) (fst (aget A l)) /\ snd (get s l) = Paths (snd (aget A l)) /\ alive (fst (get s l)) = true.
Proof.
  intros HI Hal [HR [Hs Hcap]] Hnd Hpl. pose proof HI as [HW _].
  set (a := amap A) in *.
  set (hits := filter (is_hit a) l). set (misses := filter (fun q => negb (is_hit a q)) l).
  destruct (classify_refines l s a HW HR Hs Hnd Hpl) as [s1 [Hc1 [W1 [R1 [E1 [M1 [C1 [A1 [P1 L1]]]]]]]]].
  fold hits in R1. fold misses in Hc1.
  set (a1 := fold_left (fun a q => ause a (q_name q)) hits a) in *.
  assert (Hplm : forall q, In q misses -> plain q) by (intros q Hq; apply Hpl; unfold misses in Hq; apply filter_In in Hq; tauto).
  destruct (download_refines misses s1 a1 W1 R1 Hplm) as [s2 [Hd2 R2]].
  apply sequential_equals_parallel in Hd2.
  set (a2 := fold_left (fun a q => aadd a (q_name q) (delivered q)) misses a1) in *.
  destruct (download_all_spec _ _ _ _ _ W1 Hd2) as [W2 [E2 [M2 [A2 [C2 [F2 [K2 [R2' [D2 L2]]]]]]]]].
  unfold get, aget. fold a. fold hits. fold misses. fold a1. fold a2.
  rewrite Hc1, Hd2. rewrite register_all_true.
  set (s3 := set_entries s2 (fold_left (fun e q => add_name (q_name q) e) misses (entries s2))).
  assert (Hreg : register s2 (map q_name l) misses (map (fun _ => true) misses) = (s3, map q_name l)) by apply register_all_true.
  destruct (register_props _ _ _ _ _ _ W2 Hreg (R2' eq_refl)) as [W3 [D3 [M3 [A3 [C3 [E3 I3]]]]]].
  assert (Hs3 : same_names s3 a2).
  { intros n. unfold s3. cbn [entries set_entries]. rewrite in_fold_add_name. unfold a2. rewrite in_fold_aadd.
    unfold a1. rewrite in_fold_ause. rewrite E2, E1. rewrite (Hs n). tauto. }
  assert (HR3 : Rel (disk s3) a2) by (unfold s3; cbn [disk set_entries]; exact R2).
  assert (Hall : forall n, In n (map q_name l) -> In n (anames a2)).
  { intros n Hn. apply in_map_iff in Hn. destruct Hn as [q [<- Hq]]. unfold a2. rewrite in_fold_aadd.
    destruct (is_hit a q) eqn:Eh.
    - left. unfold a1. rewrite in_fold_ause. unfold is_hit in Eh. now apply mem_true in Eh.
    - right. apply in_map. unfold misses. apply filter_In. split; [assumption | now rewrite Eh]. }
  rewrite (asize_of_total (disk s3) a2 (map q_name l) HR3 Hall).
  assert (Hmx : maxb s3 = acap A) by (unfold s3; cbn [maxb set_entries]; congruence).
  rewrite Hmx.
  set (req := asize_of a2 (map q_name l)).
  set (cap' := if req >? acap A then req + MEGABYTE else acap A).
  set (s4 := if req >? acap A then set_maxb s3 (req + MEGABYTE) else s3).
  assert (H4 : W s4 /\ Rel (disk s4) a2 /\ same_names s4 a2 /\ maxb s4 = cap').
  { unfold s4, cap'. destruct (Z.gtb_spec req (acap A)).
    - splits; [| exact HR3 | exact Hs3 | reflexivity]. apply W_set_maxb; [assumption|].
      unfold req. assert (0 <= asize_of a2 (map q_name l)).
      { clear. induction (map q_name l) as [|n l0 IH]; [cbn; lia|]. cbn [asize_of fold_right]. fold (asize_of a2 l0).
        destruct (afind a2 n) as [c|]; [pose proof (csize_nonneg c)|]; lia. }
      unfold MEGABYTE. lia.
    - splits; assumption. }
  destruct H4 as [W4 [R4 [Hs4 M4]]].
  assert (Hal4 : alive s4 = true).
  { assert (alive s4 = alive s3) as -> by (unfold s4; destruct (_ >? _); reflexivity). congruence. }
  destruct misses as [|q0 ms0] eqn:Em.
  - cbn [fst snd]. split; [|split; [reflexivity | exact Hal4]]. unfold Ref. cbn [amap acap]. splits; [exact R4 | exact Hs4 | symmetry; exact M4].
  - cbn [fst snd]. split; [|split; [reflexivity | unfold evict; rewrite evict_loop_alive; exact Hal4]].
    destruct (evict_refines s4 a2 W4 R4 Hs4) as [A5 [B5 C5]].
    unfold Ref. cbn [amap acap]. rewrite <- M4. splits; [exact A5 | exact B5 | symmetry; exact C5].
Qed.

(* ------------------------------------------------------------------ *)
(* remove, purge, and whole histories of API operations                 *)
(* ------------------------------------------------------------------ *)
Lemma aremove_notin a n : ~ In n (anames a) -> aremove a n = a.
Proof.
  intros H. unfold aremove. induction a as [|[m c] a IH]; cbn [filter fst]; [reflexivity|].
  destruct (name_eqb_spec m n) as [->|Hne]; cbn [negb].
  - exfalso. apply H. now left.
  - f_equal. apply IH. intros I. apply H. now right.
Qed.

Lemma remove_refines s A n : W s -> Ref s A -> Ref (remove_item s n) (aremove_op A n).
Proof.
  intros HW [HR [Hs Hcap]]. unfold aremove_op. unfold Ref. cbn [amap acap].
  unfold remove_item. destruct (mem n (entries s)) eqn:Em.
  - cbn [disk entries maxb set_disk set_entries]. splits; [|intros m|assumption].
    + destruct HR as [Hnd Hca Hco Hso]. constructor.
      * now apply nodup_aremove.
      * intros m Hm. apply anames_aremove in Hm. now apply Hca.
      * intros m c Hin. apply in_aremove in Hin. cbn in Hin. destruct Hin as [Hin Hne].
        destruct (Hco m c Hin) as [f [Hf Hfc]]. exists f. split; [now rewrite dfind_ddel_other | assumption].
      * apply (sorted_ext (disk s)); [now apply sorted_aremove|].
        intros m Hm. apply anames_aremove in Hm. unfold tstamp. rewrite dfind_ddel_other; tauto.
    + rewrite in_remove_name, anames_aremove, (Hs m). tauto.
  - apply mem_false in Em. rewrite aremove_notin by (intros H; apply Em; now apply Hs). splits; assumption.
Qed.

Lemma purge_refines s A : Ref s A ->
  Ref (set_disk (set_entries s []) (fold_left ddel (entries s) (disk s))) (apurge A).
Proof.
  intros [HR [Hs Hcap]]. unfold Ref, apurge. cbn [amap acap disk entries maxb set_disk set_entries]. splits; [|tauto|assumption].
  constructor; cbn; [constructor | tauto | tauto | constructor].
Qed.

Lemma Ref_init m p a : Ref (init m p a) (mkaspec [] m).
Proof.
  unfold Ref. cbn. splits; [|tauto|reflexivity]. constructor; cbn; [constructor | tauto | tauto | constructor].
Qed.

(* the API operations of the specification *)
Definition astep (A : aspec) (o : op) : aspec :=
  match o with
  | Get l => fst (aget A l)
  | Remove r k => aremove_op A (CName r k)
  | Purge => apurge A
  | _ => A
  end.

Inductive api_op : op -> Prop :=
| api_get l : NoDup (map q_name l) -> (forall q, In q l -> plain q) -> api_op (Get l)
| api_remove r k : api_op (Remove r k)
| api_purge : api_op Purge.

Theorem run_refines ops : forall s A,
  Forall api_op ops -> Inv s -> alive s = true -> Ref s A ->
  Ref (run s ops) (fold_left astep ops A) /\ alive (run s ops) = true.
Proof.
  unfold run. induction ops as [|o ops IH]; intros s A Hall HI Hal HR; cbn [fold_left]; [auto|].
  inversion Hall as [|? ? Ho Hall']; subst.
  assert (Hstep : Ref (fst (step s o)) (astep A o) /\ alive (fst (step s o)) = true).
  { destruct Ho as [l Hnd Hpl|r k|]; cbn [step astep]; rewrite Hal; cbn [step_alive fst].
    - destruct (get_refines s A l HI Hal HR Hnd Hpl) as [H1 [_ H3]]. auto.
    - split; [apply remove_refines; [exact (proj1 HI) | assumption] | now rewrite remove_item_alive].
    - split; [now apply purge_refines | exact Hal]. }
  destruct Hstep as [HR' Hal']. apply IH; try assumption. now apply step_Inv.
Qed.
