(* Proofs about Model/Estimators.v, part 3: rotation and mirror equivariance (C06).

   General form (any grid, any angle): rotating the moments by alpha is the same as evaluating the
   estimator on the grid shifted by -alpha; mirroring them is the same as evaluating it on the
   negated grid.  Uniform grids (second half): a shift by k bins is a cyclic rotation of the grid
   modulo 2 pi, hence the output rotates by k bins. *)
From Coq Require Import Reals List Arith Lra Lia Nsatz Bool.
From OSU.Model Require Import Estimators.
From OSU.Lib Require Import EstAuxSums.
From OSU.Proofs Require Import Estimators.
Import ListNotations.
Open Scope R_scope.

(* (a1 + i b1) e^{i al}, (a2 + i b2) e^{2 i al} *)
Definition rotm (al : R) (m : V4) : V4 :=
  mk4 (q1 m * cos al - q2 m * sin al) (q1 m * sin al + q2 m * cos al)
      (q3 m * cos (2 * al) - q4 m * sin (2 * al)) (q3 m * sin (2 * al) + q4 m * cos (2 * al)).
(* complex conjugates: the moments of theta -> -theta *)
Definition mirm (m : V4) : V4 := mk4 (q1 m) (- q2 m) (q3 m) (- q4 m).
Definition shiftg (al : R) (th : list R) : list R := map (fun t => t - al) th.
Definition negg (th : list R) : list R := map Ropp th.
Definition mem4 (th : list R) (m : V4) : option (list R) := mem_point th (q1 m) (q2 m) (q3 m) (q4 m).
Definition rotp (c s : R) (p : R * R) : R * R := (fst p * c - snd p * s, fst p * s + snd p * c).
Definition conjp (p : R * R) : R * R := (fst p, - snd p).

Lemma cs1 : forall x, cos x * cos x + sin x * sin x = 1.
Proof. intro x. pose proof (sin2_cos2 x) as H. unfold Rsqr in H. lra. Qed.

(* ---------------- MEM, rotation ---------------- *)
Section MemRot.
  Variables (a1 b1 a2 b2 al : R).
  Let c := cos al. Let s := sin al.
  Let m' := rotm al (mk4 a1 b1 a2 b2).

  Lemma rot_c1sq : mem_one_minus_c1sq (q1 m') (q2 m') = mem_one_minus_c1sq a1 b1.
  Proof.
    unfold mem_one_minus_c1sq, m', rotm; simpl. pose proof (cs1 al) as H. fold c s in H. fold c s. nsatz.
  Qed.

  Lemma rot_phi1 : mem_phi1 (q1 m') (q2 m') (q3 m') (q4 m') = rotp c s (mem_phi1 a1 b1 a2 b2).
  Proof.
    unfold mem_phi1. cbv zeta. rewrite rot_c1sq. unfold rotp, m', rotm; simpl.
    rewrite (cos_2a al), (sin_2a al). fold c s.
    pose proof (cs1 al) as H. fold c s in H. unfold Rdiv.
    generalize (/ mem_one_minus_c1sq a1 b1). intro r.
    f_equal; nsatz.
  Qed.

  Lemma rot_phi2 : mem_phi2 (q1 m') (q2 m') (q3 m') (q4 m')
                   = rotp (cos (2 * al)) (sin (2 * al)) (mem_phi2 a1 b1 a2 b2).
  Proof.
    unfold mem_phi2. cbv zeta. rewrite rot_phi1.
    destruct (mem_phi1 a1 b1 a2 b2) as [pr pi]. unfold rotp, m', rotm; simpl.
    rewrite (cos_2a al), (sin_2a al). fold c s. f_equal; ring.
  Qed.

  Lemma rot_num : mem_num (q1 m') (q2 m') (q3 m') (q4 m') = mem_num a1 b1 a2 b2.
  Proof.
    unfold mem_num. cbv zeta. rewrite rot_phi1, rot_phi2.
    destruct (mem_phi1 a1 b1 a2 b2) as [pr pi]. destruct (mem_phi2 a1 b1 a2 b2) as [qr qi].
    unfold rotp, m', rotm; simpl.
    pose proof (cs1 al) as H. pose proof (cs1 (2 * al)) as H2. fold c s in H. fold c s.
    set (C2 := cos (2 * al)) in *. set (S2 := sin (2 * al)) in *. nsatz.
  Qed.

  Lemma rot_den : forall p q t,
    mem_den (rotp c s p) (rotp (cos (2 * al)) (sin (2 * al)) q) t = mem_den p q (t - al).
  Proof.
    intros [pr pi] [qr qi] t. unfold mem_den, rotp; simpl.
    replace (2 * (t - al)) with (2 * t - 2 * al) by ring.
    rewrite !cos_minus, !sin_minus. fold c s. ring.
  Qed.
End MemRot.

Lemma existsb_map : forall {A B} (f : B -> bool) (g : A -> B) l, existsb f (map g l) = existsb (fun x => f (g x)) l.
Proof. induction l; simpl; congruence. Qed.

Lemma mem_raw_rot : forall th al a1 b1 a2 b2,
  let m' := rotm al (mk4 a1 b1 a2 b2) in
  mem_raw th (q1 m') (q2 m') (q3 m') (q4 m') = mem_raw (shiftg al th) a1 b1 a2 b2.
Proof.
  intros th al a1 b1 a2 b2 m'. unfold mem_raw, shiftg, m'. cbv zeta. rewrite map_map.
  apply map_ext. intro t.
  rewrite (rot_phi1 a1 b1 a2 b2 al), (rot_phi2 a1 b1 a2 b2 al), (rot_num a1 b1 a2 b2 al), rot_den.
  reflexivity.
Qed.

Definition guardf (n : R) (ex : bool) (nm : R) : bool :=
  if Req_EM_T n 0 then false else if ex then false else if Req_EM_T nm 0 then false else true.
Lemma mem_guard_unfold : forall th a1 b1 a2 b2,
  mem_guard th a1 b1 a2 b2 =
  guardf (mem_one_minus_c1sq a1 b1)
         (existsb (fun t => if Req_EM_T (mem_den (mem_phi1 a1 b1 a2 b2) (mem_phi2 a1 b1 a2 b2) t) 0
                            then true else false) th)
         (mem_norm (mem_raw th a1 b1 a2 b2)).
Proof. reflexivity. Qed.

Lemma mem_guard_rot : forall th al a1 b1 a2 b2,
  let m' := rotm al (mk4 a1 b1 a2 b2) in
  mem_guard th (q1 m') (q2 m') (q3 m') (q4 m') = mem_guard (shiftg al th) a1 b1 a2 b2.
Proof.
  intros th al a1 b1 a2 b2 m'.
  assert (E2 : existsb (fun t => if Req_EM_T (mem_den (mem_phi1 (q1 m') (q2 m') (q3 m') (q4 m'))
                                              (mem_phi2 (q1 m') (q2 m') (q3 m') (q4 m')) t) 0 then true else false) th
               = existsb (fun t => if Req_EM_T (mem_den (mem_phi1 a1 b1 a2 b2) (mem_phi2 a1 b1 a2 b2) t) 0
                                   then true else false) (shiftg al th)).
  { unfold shiftg. rewrite existsb_map. f_equal.
    apply FunctionalExtensionality.functional_extensionality. intro t. unfold m'.
    rewrite (rot_phi1 a1 b1 a2 b2 al), (rot_phi2 a1 b1 a2 b2 al), rot_den. reflexivity. }
  rewrite !mem_guard_unfold. f_equal.
  - apply (rot_c1sq a1 b1 a2 b2 al).
  - exact E2.
  - f_equal. apply (mem_raw_rot th al a1 b1 a2 b2).
Qed.

(* MEM, any grid, any angle: rotating the moments = shifting the grid the other way *)
Lemma mem_rotation_shift : forall th al m, mem4 th (rotm al m) = mem4 (shiftg al th) m.
Proof.
  intros th al [a1 b1 a2 b2]. unfold mem4, mem_point. cbn [q1 q2 q3 q4].
  rewrite (mem_guard_rot th al a1 b1 a2 b2), (mem_raw_rot th al a1 b1 a2 b2). reflexivity.
Qed.

(* ---------------- MEM, mirror ---------------- *)
Lemma mir_phi1 : forall a1 b1 a2 b2, mem_phi1 a1 (- b1) a2 (- b2) = conjp (mem_phi1 a1 b1 a2 b2).
Proof.
  intros. unfold mem_phi1, conjp, mem_one_minus_c1sq. cbv zeta. simpl. f_equal; unfold Rdiv.
  - f_equal. ring. f_equal. ring.
  - replace (1 - (a1 * a1 + - b1 * - b1)) with (1 - (a1 * a1 + b1 * b1)) by ring. ring.
Qed.

Lemma mir_phi2 : forall a1 b1 a2 b2, mem_phi2 a1 (- b1) a2 (- b2) = conjp (mem_phi2 a1 b1 a2 b2).
Proof.
  intros. unfold mem_phi2. cbv zeta. rewrite mir_phi1.
  destruct (mem_phi1 a1 b1 a2 b2) as [pr pi]. unfold conjp; simpl. f_equal; ring.
Qed.

Lemma mir_num : forall a1 b1 a2 b2, mem_num a1 (- b1) a2 (- b2) = mem_num a1 b1 a2 b2.
Proof.
  intros. unfold mem_num. cbv zeta. rewrite mir_phi1, mir_phi2.
  destruct (mem_phi1 a1 b1 a2 b2) as [pr pi]. destruct (mem_phi2 a1 b1 a2 b2) as [qr qi].
  unfold conjp; simpl. ring.
Qed.

Lemma mir_den : forall p q t, mem_den (conjp p) (conjp q) t = mem_den p q (- t).
Proof.
  intros [pr pi] [qr qi] t. unfold mem_den, conjp; simpl.
  replace (2 * - t) with (- (2 * t)) by ring. rewrite !cos_neg, !sin_neg. ring.
Qed.

Lemma mir_c1sq : forall a1 b1, mem_one_minus_c1sq a1 (- b1) = mem_one_minus_c1sq a1 b1.
Proof. intros. unfold mem_one_minus_c1sq. ring. Qed.

Lemma mem_raw_mir : forall th a1 b1 a2 b2,
  mem_raw th a1 (- b1) a2 (- b2) = mem_raw (negg th) a1 b1 a2 b2.
Proof.
  intros. unfold mem_raw, negg. cbv zeta. rewrite map_map.
  apply map_ext. intro t. rewrite mir_phi1, mir_phi2, mir_num, mir_den. reflexivity.
Qed.

Lemma mem_guard_mir : forall th a1 b1 a2 b2,
  mem_guard th a1 (- b1) a2 (- b2) = mem_guard (negg th) a1 b1 a2 b2.
Proof.
  intros.
  assert (E2 : existsb (fun t => if Req_EM_T (mem_den (mem_phi1 a1 (- b1) a2 (- b2)) (mem_phi2 a1 (- b1) a2 (- b2)) t) 0
                                 then true else false) th
               = existsb (fun t => if Req_EM_T (mem_den (mem_phi1 a1 b1 a2 b2) (mem_phi2 a1 b1 a2 b2) t) 0
                                   then true else false) (negg th)).
  { unfold negg. rewrite existsb_map. f_equal.
    apply FunctionalExtensionality.functional_extensionality. intro t.
    rewrite mir_phi1, mir_phi2, mir_den. reflexivity. }
  rewrite !mem_guard_unfold. f_equal.
  - apply mir_c1sq.
  - exact E2.
  - f_equal. apply mem_raw_mir.
Qed.

Lemma mem_mirror_neg : forall th m, mem4 th (mirm m) = mem4 (negg th) m.
Proof.
  intros th [a1 b1 a2 b2]. unfold mem4, mem_point, mirm. cbn [q1 q2 q3 q4].
  rewrite mem_guard_mir, mem_raw_mir. reflexivity.
Qed.

(* ---------------- MEM2, rotation and mirror ---------------- *)
Lemma inner_rot : forall l al t, inner (rotm al l) t = inner l (t - al).
Proof.
  intros [l1 l2 l3 l4] al t. unfold inner, rotm, tw; simpl.
  replace (2 * (t - al)) with (2 * t - 2 * al) by ring.
  rewrite !cos_minus, !sin_minus. ring.
Qed.

Lemma inner_mir : forall l t, inner (mirm l) t = inner l (- t).
Proof.
  intros [l1 l2 l3 l4] t. unfold inner, mirm, tw; simpl.
  replace (2 * - t) with (- (2 * t)) by ring. rewrite !cos_neg, !sin_neg. ring.
Qed.

Lemma shape_rot : forall l al th, shape (rotm al l) th = shape l (shiftg al th).
Proof.
  intros. unfold shape, shifted, shiftg. cbv zeta. rewrite !map_map.
  rewrite (map_ext (fun x => inner l (x - al)) (inner (rotm al l))) by (intro; symmetry; apply inner_rot).
  apply map_ext. intro t. rewrite inner_rot. reflexivity.
Qed.

Lemma shape_mir : forall l th, shape (mirm l) th = shape l (negg th).
Proof.
  intros. unfold shape, shifted, negg. cbv zeta. rewrite !map_map.
  rewrite (map_ext (fun x => inner l (- x)) (inner (mirm l))) by (intro; symmetry; apply inner_mir).
  apply map_ext. intro t. rewrite inner_mir. reflexivity.
Qed.

(* the MEM2 distribution of rotated multipliers = the distribution on the shifted grid (any grid, any increments) *)
Lemma dist_rotation_shift : forall l al d th, dist (rotm al l) d th = dist l d (shiftg al th).
Proof. intros. unfold dist, normalization. cbv zeta. rewrite shape_rot. reflexivity. Qed.

Lemma dist_mirror_neg : forall l d th, dist (mirm l) d th = dist l d (negg th).
Proof. intros. unfold dist, normalization. cbv zeta. rewrite shape_mir. reflexivity. Qed.

(* linear change of the twiddle factors inside a moment sum *)
Lemma moment_lin : forall (f g h phi : R -> R) a b th D d,
  (forall t, f t = a * g (phi t) + b * h (phi t)) ->
  sumR (map2 Rmult (map2 Rmult (map f th) D) d)
  = a * sumR (map2 Rmult (map2 Rmult (map g (map phi th)) D) d)
    + b * sumR (map2 Rmult (map2 Rmult (map h (map phi th)) D) d).
Proof.
  intros f g h phi a b th D d H. revert D d.
  induction th as [|t th IH]; intros D d; simpl; [ring|].
  destruct D as [|x D]; simpl; [ring|].
  destruct d as [|w d]; simpl; [ring|].
  rewrite IH, H. ring.
Qed.

Lemma moments_rot : forall al D d th,
  moment_of 0 D d th = cos al * moment_of 0 D d (shiftg al th) + (- sin al) * moment_of 1 D d (shiftg al th) /\
  moment_of 1 D d th = sin al * moment_of 0 D d (shiftg al th) + cos al * moment_of 1 D d (shiftg al th) /\
  moment_of 2 D d th = cos (2 * al) * moment_of 2 D d (shiftg al th) + (- sin (2 * al)) * moment_of 3 D d (shiftg al th) /\
  moment_of 3 D d th = sin (2 * al) * moment_of 2 D d (shiftg al th) + cos (2 * al) * moment_of 3 D d (shiftg al th).
Proof.
  intros. unfold moment_of, shiftg. repeat split.
  - apply (moment_lin (tw 0) (tw 0) (tw 1) (fun t => t - al)). intro t. simpl.
    replace t with ((t - al) + al) at 1 by ring. rewrite cos_plus. ring.
  - apply (moment_lin (tw 1) (tw 0) (tw 1) (fun t => t - al)). intro t. simpl.
    replace t with ((t - al) + al) at 1 by ring. rewrite sin_plus. ring.
  - apply (moment_lin (tw 2) (tw 2) (tw 3) (fun t => t - al)). intro t. simpl.
    replace (2 * t) with (2 * (t - al) + 2 * al) at 1 by ring. rewrite cos_plus. ring.
  - apply (moment_lin (tw 3) (tw 2) (tw 3) (fun t => t - al)). intro t. simpl.
    replace (2 * t) with (2 * (t - al) + 2 * al) at 1 by ring. rewrite sin_plus. ring.
Qed.

(* the constraint function is equivariant: F(R lambda; R m) on the grid = R F(lambda; m) on the shifted grid *)
Lemma constraints_rotation_shift : forall l mo al d th,
  constraints (rotm al l) (rotm al mo) d th = rotm al (constraints l mo d (shiftg al th)).
Proof.
  intros. unfold constraints. cbv zeta. rewrite dist_rotation_shift.
  destruct (moments_rot al (dist l d (shiftg al th)) d th) as (E0 & E1 & E2 & E3).
  rewrite E0, E1, E2, E3. unfold rotm; simpl. f_equal; ring.
Qed.

Lemma moments_mir : forall D d th,
  moment_of 0 D d th = 1 * moment_of 0 D d (negg th) + 0 * moment_of 1 D d (negg th) /\
  moment_of 1 D d th = 0 * moment_of 0 D d (negg th) + (- 1) * moment_of 1 D d (negg th) /\
  moment_of 2 D d th = 1 * moment_of 2 D d (negg th) + 0 * moment_of 3 D d (negg th) /\
  moment_of 3 D d th = 0 * moment_of 2 D d (negg th) + (- 1) * moment_of 3 D d (negg th).
Proof.
  intros. unfold moment_of, negg. repeat split.
  - apply (moment_lin (tw 0) (tw 0) (tw 1) Ropp). intro t. simpl. rewrite cos_neg. ring.
  - apply (moment_lin (tw 1) (tw 0) (tw 1) Ropp). intro t. simpl. rewrite sin_neg. ring.
  - apply (moment_lin (tw 2) (tw 2) (tw 3) Ropp). intro t. simpl.
    replace (2 * - t) with (- (2 * t)) by ring. rewrite cos_neg. ring.
  - apply (moment_lin (tw 3) (tw 2) (tw 3) Ropp). intro t. simpl.
    replace (2 * - t) with (- (2 * t)) by ring. rewrite sin_neg. ring.
Qed.

Lemma constraints_mirror_neg : forall l mo d th,
  constraints (mirm l) (mirm mo) d th = mirm (constraints l mo d (negg th)).
Proof.
  intros. unfold constraints. cbv zeta. rewrite dist_mirror_neg.
  destruct (moments_mir (dist l d (negg th)) d th) as (E0 & E1 & E2 & E3).
  rewrite E0, E1, E2, E3. unfold mirm; simpl. f_equal; ring.
Qed.

(* the MEM-AP2 first guess is equivariant *)
Definition init4 (m : V4) : V4 := initial_value (q1 m) (q2 m) (q3 m) (q4 m).

Lemma initial_value_rotation : forall al m, init4 (rotm al m) = rotm al (init4 m).
Proof.
  intros al [a1 b1 a2 b2]. unfold init4, initial_value, rotm; simpl.
  rewrite (cos_2a al), (sin_2a al). pose proof (cs1 al) as H.
  set (c := cos al) in *. set (s := sin al) in *. f_equal; nsatz.
Qed.

Lemma initial_value_mirror : forall m, init4 (mirm m) = mirm (init4 m).
Proof. intros [a1 b1 a2 b2]. unfold init4, initial_value, mirm; simpl. f_equal; ring. Qed.

(* norms are invariant, so the stopping rule "norm(F) < atol" sees the same number *)
Lemma norm4_rot : forall al v, norm4 (rotm al v) = norm4 v.
Proof.
  intros al [a b c e]. unfold norm4, rotm; simpl. f_equal.
  pose proof (cs1 al). pose proof (cs1 (2 * al)).
  set (c1 := cos al) in *. set (s1 := sin al) in *. set (c2 := cos (2 * al)) in *. set (s2 := sin (2 * al)) in *.
  nsatz.
Qed.

Lemma norm4_mir : forall v, norm4 (mirm v) = norm4 v.
Proof. intros [a b c e]. unfold norm4, mirm; simpl. f_equal. ring. Qed.
