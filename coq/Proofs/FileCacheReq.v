(* What a request returns: every returned path is registered, exists, is complete, belongs to its
   resource, and was not evicted by the request itself (requests with pairwise distinct URIs). *)
From Coq Require Import ZArith List Bool Arith Lia Permutation.
From OSU.Model Require Import FileCache.
From OSU.Proofs Require Import FileCacheBase FileCacheInv FileCacheGet FileCacheHist.
Import ListNotations.
Open Scope Z_scope.

(* ------------------------------------------------------------------ *)
(* eviction keeps a protected set that is newer than the rest and fits  *)
(* ------------------------------------------------------------------ *)
Lemma evict_loop_keeps (P : name -> bool) fuel : forall s,
  W s ->
  (forall n m f g, In n (entries s) -> In m (entries s) -> P n = false -> P m = true ->
                   dfind (disk s) n = Some f -> dfind (disk s) m = Some g -> ftime f < ftime g) ->
  (forall l, NoDup l -> (forall n, In n l -> In n (entries s) /\ P n = true) -> total_size (disk s) l <= maxb s) ->
  forall n, In n (entries s) -> P n = true ->
            In n (entries (evict_loop fuel s)) /\ dfind (disk (evict_loop fuel s)) n = dfind (disk s) n.
Proof.
  induction fuel as [|fuel IH]; intros s HW Hord Hfit n Hn HP; cbn [evict_loop]; [split; [assumption | reflexivity]|].
  destruct (Z.gtb_spec (cache_size s) (maxb s)) as [Hgt|Hle]; [|split; [assumption | reflexivity]].
  destruct (oldest s) as [n0|] eqn:Eo; [|split; [assumption | reflexivity]].
  destruct (oldest_spec s n0 Eo) as [Hin0 [f0 [Hf0 Hmin]]].
  assert (HP0 : P n0 = false).
  { destruct (P n0) eqn:E0; [|reflexivity]. exfalso.
    (* then every entry is protected, so the whole cache fits: contradiction *)
    assert (forall m, In m (entries s) -> In m (entries s) /\ P m = true) as Hall.
    { intros m Hm. split; [assumption|]. destruct (P m) eqn:Em; [reflexivity|]. exfalso.
      destruct (w_entries_on_disk s HW m Hm) as [_ He]. apply dexists_true in He. destruct He as [g Hg].
      pose proof (Hord m n0 g f0 Hm Hin0 Em E0 Hg Hf0). pose proof (Hmin m g Hm Hg). lia. }
    pose proof (Hfit (entries s) (w_entries s HW) Hall). unfold cache_size in Hgt. lia. }
  assert (Hne : n <> n0) by (intros ->; congruence).
  apply mem_true in Hin0 as Hmem.
  assert (Hent : entries (remove_item s n0) = remove_name n0 (entries s)) by (unfold remove_item; now rewrite Hmem).
  assert (Hdisk : disk (remove_item s n0) = ddel (disk s) n0) by (unfold remove_item; now rewrite Hmem).
  destruct (IH (remove_item s n0)) with (n := n) as [A B].
  - now apply W_remove_item.
  - intros a b f g Ha Hb Pa Pb Hfa Hfb. rewrite Hent in Ha, Hb. apply in_remove_name in Ha, Hb.
    rewrite Hdisk in Hfa, Hfb. rewrite dfind_ddel_other in Hfa, Hfb by tauto.
    apply (Hord a b f g); tauto.
  - intros l Hd Hl. rewrite remove_item_maxb. rewrite Hdisk.
    rewrite (total_size_ext _ (disk s)).
    + apply Hfit; [assumption|]. intros x Hx. destruct (Hl x Hx) as [Hx1 Hx2]. rewrite Hent in Hx1.
      apply in_remove_name in Hx1. tauto.
    + intros x Hx. destruct (Hl x Hx) as [Hx1 _]. rewrite Hent in Hx1. apply in_remove_name in Hx1.
      apply fsize_ddel_other. tauto.
  - rewrite Hent. apply in_remove_name. tauto.
  - assumption.
  - split; [assumption|]. rewrite B, Hdisk. now apply dfind_ddel_other.
Qed.

(* ------------------------------------------------------------------ *)
(* frames of the classification phase                                   *)
(* ------------------------------------------------------------------ *)
Lemma remove_item_dfind_other s n m : m <> n -> dfind (disk (remove_item s n)) m = dfind (disk s) m.
Proof.
  intros H. unfold remove_item. destruct (mem n (entries s)); [|reflexivity]. cbn. now apply dfind_ddel_other.
Qed.

Lemma remove_item_entries_other s n m : m <> n -> In m (entries s) -> In m (entries (remove_item s n)).
Proof.
  intros H Hm. unfold remove_item. destruct (mem n (entries s)); [|assumption]. cbn. apply in_remove_name. tauto.
Qed.

Lemma classify_frame l : forall s s1 ms,
  classify s l = Some (s1, ms) ->
  (forall n, ~ In n (map q_name l) -> dfind (disk s1) n = dfind (disk s) n) /\
  (forall n, ~ In n (map q_name l) -> In n (entries s) -> In n (entries s1)) /\
  fetched s1 = fetched s /\ allow s1 = allow s.
Proof.
  induction l as [|q l IH]; intros s s1 ms H; cbn [classify] in H.
  - injection H as <- <-. repeat split; auto.
  - assert (Hmiss : forall s0, match classify s0 l with Some (s2, ms0) => Some (s2, q :: ms0) | None => None end = Some (s1, ms) ->
              (forall n, n <> q_name q -> dfind (disk s0) n = dfind (disk s) n) ->
              (forall n, n <> q_name q -> In n (entries s) -> In n (entries s0)) ->
              fetched s0 = fetched s -> allow s0 = allow s ->
              (forall n, ~ In n (map q_name (q :: l)) -> dfind (disk s1) n = dfind (disk s) n) /\
              (forall n, ~ In n (map q_name (q :: l)) -> In n (entries s) -> In n (entries s1)) /\
              fetched s1 = fetched s /\ allow s1 = allow s).
    { intros s0 Hc Hd He Hf Ha. destruct (classify s0 l) as [[s2 ms0]|] eqn:E; [|discriminate].
      injection Hc as <- <-. destruct (IH _ _ _ E) as [A [B [Cc D]]]. cbn [map]. repeat split.
      - intros n Hn. rewrite A by (intros X; apply Hn; now right). apply Hd. intros ->. apply Hn. now left.
      - intros n Hn Hin. apply B; [intros X; apply Hn; now right|]. apply He; [|assumption]. intros ->. apply Hn. now left.
      - congruence.
      - congruence. }
    assert (Hhit : match dfind (disk s) (q_name q) with
        | None => None
        | Some f => match classify (tick (set_disk s (dupd (disk s) (q_name q) (mkfile (fcontent f) (clock s))))) l with
                    | Some (s2, ms0) => Some (s2, ms0) | None => None end
        end = Some (s1, ms) ->
        (forall n, ~ In n (map q_name (q :: l)) -> dfind (disk s1) n = dfind (disk s) n) /\
        (forall n, ~ In n (map q_name (q :: l)) -> In n (entries s) -> In n (entries s1)) /\
        fetched s1 = fetched s /\ allow s1 = allow s).
    { intros Hc. destruct (dfind (disk s) (q_name q)) as [f|]; [|discriminate].
      destruct (classify _ l) as [[s2 ms0]|] eqn:E; [|discriminate]. injection Hc as <- <-.
      destruct (IH _ _ _ E) as [A [B [Cc D]]]. cbn [map]. repeat split.
      - intros n Hn. rewrite A by (intros X; apply Hn; now right). cbn [disk tick set_disk].
        apply dfind_dupd_other. intros ->. apply Hn. now left.
      - intros n Hn Hin. apply B; [intros X; apply Hn; now right|]. exact Hin.
      - rewrite Cc. reflexivity.
      - rewrite D. reflexivity. }
    destruct (mem (q_name q) (entries s)) eqn:Em.
    + destruct (q_validate q) as [[ | | ]|]; try (exact (Hhit H)).
      * apply (Hmiss (remove_item s (q_name q)) H).
        -- intros n Hn. now apply remove_item_dfind_other.
        -- intros n Hn Hin. now apply remove_item_entries_other.
        -- unfold remove_item. rewrite Em. reflexivity.
        -- unfold remove_item. rewrite Em. reflexivity.
      * apply (Hmiss (remove_item s (q_name q)) H).
        -- intros n Hn. now apply remove_item_dfind_other.
        -- intros n Hn Hin. now apply remove_item_entries_other.
        -- unfold remove_item. rewrite Em. reflexivity.
        -- unfold remove_item. rewrite Em. reflexivity.
    + apply (Hmiss s H); auto.
Qed.

(* each requested URI is either a miss, or a registered hit whose file was touched *)
Lemma classify_fresh l : forall s s1 ms,
  W s -> NoDup (map q_name l) -> classify s l = Some (s1, ms) ->
  forall q, In q l ->
    In q ms \/
    (In (q_name q) (entries s1) /\ exists f, dfind (disk s1) (q_name q) = Some f /\ clock s <= ftime f).
Proof.
  induction l as [|q0 l IH]; intros s s1 ms HW Hnd H q Hq; [contradiction|].
  cbn [map] in Hnd. inversion Hnd as [|? ? Hnotin Hnd']; subst.
  cbn [classify] in H.
  assert (Hmiss : forall s0, W s0 -> clock s <= clock s0 ->
             match classify s0 l with Some (s2, ms0) => Some (s2, q0 :: ms0) | None => None end = Some (s1, ms) ->
             In q ms \/ (In (q_name q) (entries s1) /\ exists f, dfind (disk s1) (q_name q) = Some f /\ clock s <= ftime f)).
  { intros s0 HW0 Hck Hc. destruct (classify s0 l) as [[s2 ms0]|] eqn:E; [|discriminate]. injection Hc as <- <-.
    destruct Hq as [<-|Hq]; [left; now left|].
    destruct (IH _ _ _ HW0 Hnd' E q Hq) as [A|[A [f [B Cc]]]]; [left; now right|].
    right. split; [assumption|]. exists f. split; [assumption | lia]. }
  destruct (mem (q_name q0) (entries s)) eqn:Em.
  - assert (Hhit : match dfind (disk s) (q_name q0) with
        | None => None
        | Some f => match classify (tick (set_disk s (dupd (disk s) (q_name q0) (mkfile (fcontent f) (clock s))))) l with
                    | Some (s2, ms0) => Some (s2, ms0) | None => None end
        end = Some (s1, ms) ->
        In q ms \/ (In (q_name q) (entries s1) /\ exists f, dfind (disk s1) (q_name q) = Some f /\ clock s <= ftime f)).
    { intros Hc. destruct (dfind (disk s) (q_name q0)) as [f|] eqn:Ef; [|discriminate].
      fold (touch_state s (q_name q0) f (clock s)) in Hc.
      destruct (classify (touch_state s (q_name q0) f (clock s)) l) as [[s2 ms0]|] eqn:E; [|discriminate].
      injection Hc as <- <-.
      assert (HW0 : W (touch_state s (q_name q0) f (clock s))) by (apply W_touch; auto).
      destruct Hq as [<-|Hq].
      - right. destruct (classify_frame _ _ _ _ E) as [A [B _]]. split.
        + apply B; [assumption|]. cbn. now apply mem_true.
        + rewrite A by assumption. unfold touch_state. cbn [disk tick set_disk]. rewrite dfind_dupd_same.
          eexists. split; [reflexivity|]. cbn. lia.
      - destruct (IH _ _ _ HW0 Hnd' E q Hq) as [A|[A [g [B Cc]]]]; [left; assumption|].
        right. split; [assumption|]. exists g. split; [assumption|]. unfold touch_state in Cc. cbn in Cc. lia. }
    destruct (q_validate q0) as [[ | | ]|]; try (exact (Hhit H)).
    + apply (Hmiss (remove_item s (q_name q0))); [now apply W_remove_item | rewrite remove_item_clock; lia | exact H].
    + apply (Hmiss (remove_item s (q_name q0))); [now apply W_remove_item | rewrite remove_item_clock; lia | exact H].
  - apply (Hmiss s); [assumption | lia | exact H].
Qed.

(* ------------------------------------------------------------------ *)
(* downloads                                                            *)
(* ------------------------------------------------------------------ *)
Lemma worker_stamp s q s' c : worker s q = (s', Some true, c) ->
  exists f, dfind (disk s') (q_name q) = Some f /\ clock s <= ftime f.
Proof.
  unfold worker. intros H.
  destruct (q_out q) as [v| | |v|v]; try (destruct (allow (log_fetch s (q_res q))) eqn:Ea); try discriminate.
  all: destruct (q_post q) as [[|]|]; try discriminate; inversion H; subst; clear H;
    cbn [disk tick set_disk]; rewrite dfind_dupd_same; eexists; (split; [reflexivity | cbn; lia]).
Qed.

Lemma download_fresh ms : forall s s' bs st,
  W s -> NoDup (map q_name ms) -> download s ms = (s', bs, st) ->
  forall q, In (q, true) (combine ms bs) ->
            exists f, dfind (disk s') (q_name q) = Some f /\ clock s <= ftime f.
Proof.
  induction ms as [|q0 ms IH]; intros s s' bs st HW Hnd H q Hq; cbn [download] in H.
  - injection H as <- <- <-. destruct Hq.
  - cbn [map] in Hnd. inversion Hnd as [|? ? Hnotin Hnd']; subst.
    destruct (worker s q0) as [[s1 r] c] eqn:Ew.
    destruct (worker_props _ _ _ _ _ HW Ew) as [W1 [E1 [M1 [A1 [C1 _]]]]].
    destruct r as [b|]; [|destruct c; injection H as <- <- <-; destruct Hq].
    destruct (download s1 ms) as [[s2 bs2] st2] eqn:Ed. injection H as <- <- <-.
    destruct (download_props _ _ _ _ _ W1 Ed) as [_ [_ [_ [_ [_ [_ [_ [_ [D2 _]]]]]]]]].
    destruct Hq as [E|Hq].
    + injection E as <- ->. destruct (worker_stamp _ _ _ _ Ew) as [f [Hf Ht]].
      exists f. split; [|assumption]. rewrite D2; [assumption|].
      intros q' Hq'. split; [|discriminate]. intros E. apply Hnotin. rewrite E. now apply in_map.
    + destruct (IH _ _ _ _ W1 Hnd' Ed q Hq) as [f [Hf Ht]]. exists f. split; [assumption | lia].
Qed.

Lemma nodup_app_parts {A} (l1 l2 : list A) :
  NoDup (l1 ++ l2) -> NoDup l1 /\ NoDup l2 /\ (forall x, In x l1 -> ~ In x l2).
Proof.
  induction l1 as [|a l1 IH]; cbn; intros H.
  - split; [constructor|]. split; [assumption | tauto].
  - inversion H as [|? ? Hn Hd]; subst. destruct (IH Hd) as [A1 [A2 A3]]. split; [|split; [assumption|]].
    + constructor; [|assumption]. intros Hin. apply Hn. apply in_or_app. now left.
    + intros x [->|Hx]; [intros Hin; apply Hn; apply in_or_app; now right | now apply A3].
Qed.

Lemma download_chunks_fresh cs : forall s s' bs,
  W s -> NoDup (map q_name (concat cs)) -> download_chunks s cs = (s', bs, DlOk) ->
  forall q, In (q, true) (combine (concat cs) bs) ->
            exists f, dfind (disk s') (q_name q) = Some f /\ clock s <= ftime f.
Proof.
  induction cs as [|c cs IH]; intros s s' bs HW Hnd H q Hq; cbn [download_chunks concat] in *.
  - injection H as <- <-. destruct Hq.
  - destruct (download s c) as [[s1 bs1] st1] eqn:E1.
    destruct (download_chunks s1 cs) as [[s2 bs2] st2] eqn:E2. injection H as <- <- Hm.
    apply merge_ok in Hm. destruct Hm as [-> ->].
    destruct (download_spec _ _ _ _ _ HW E1) as [W1 [_ [_ [_ [C1 [_ [_ [_ [_ L1]]]]]]]]].
    destruct (download_chunks_spec _ _ _ _ _ W1 E2) as [_ [_ [_ [_ [_ [_ [_ [_ [D2 _]]]]]]]]].
    rewrite map_app in Hnd. destruct (nodup_app_parts _ _ Hnd) as [N1 [N2 N3]].
    rewrite combine_app_eq in Hq by now apply L1. apply in_app_or in Hq. destruct Hq as [Hq|Hq].
    + destruct (download_fresh _ _ _ _ _ HW N1 E1 q Hq) as [f [Hf Ht]]. exists f. split; [|assumption].
      rewrite D2; [assumption|]. intros q' Hq'. split; [|discriminate].
      intros E. apply (N3 (q_name q)); [apply in_map; now apply in_combine_l in Hq | rewrite E; now apply in_map].
    + destruct (IH _ _ _ W1 N2 E2 q Hq) as [f [Hf Ht]]. exists f. split; [assumption | lia].
Qed.

Lemma download_all_fresh s ms s' bs :
  W s -> NoDup (map q_name ms) -> download_all s ms = (s', bs, DlOk) ->
  forall q, In (q, true) (combine ms bs) ->
            exists f, dfind (disk s') (q_name q) = Some f /\ clock s <= ftime f.
Proof.
  intros HW Hnd H. unfold download_all in H. destruct (par s && Nat.ltb 1 (length ms)).
  - pose proof (download_chunks_fresh (chunks_of (length ms) ms) s s' bs HW) as Hf.
    rewrite (concat_chunks_of (length ms) ms) in Hf by lia. now apply Hf.
  - now apply (download_fresh ms s s' bs DlOk).
Qed.

Lemma combine_nodup_bool ms : forall (bs : list bool) q q' (b b' : bool),
  NoDup (map q_name ms) -> In (q, b) (combine ms bs) -> In (q', b') (combine ms bs) ->
  q_name q = q_name q' -> b = b'.
Proof.
  induction ms as [|q0 ms IH]; intros bs q q' b b' Hnd H1 H2 E; [destruct H1|].
  destruct bs as [|b0 bs]; [destruct H1|]. cbn [map] in Hnd. inversion Hnd as [|? ? Hnotin Hnd']; subst.
  cbn [combine] in H1, H2. destruct H1 as [E1|H1], H2 as [E2|H2].
  - congruence.
  - injection E1 as <- <-. exfalso. apply Hnotin. rewrite E. apply in_map. now apply in_combine_l in H2.
  - injection E2 as <- <-. exfalso. apply Hnotin. rewrite <- E. apply in_map. now apply in_combine_l in H1.
  - now apply (IH bs q q' b b').
Qed.

(* ------------------------------------------------------------------ *)
(* the returned paths                                                   *)
(* ------------------------------------------------------------------ *)
Lemma in_remove_first n m l : In n (remove_first m l) -> In n l.
Proof.
  induction l as [|x l IH]; cbn; [tauto|]. destruct (name_eqb x m); [now right|].
  intros [->|H]; [now left | right; now apply IH].
Qed.

Lemma remove_first_other n m l : n <> m -> In n l -> In n (remove_first m l).
Proof.
  intros Hne. induction l as [|x l IH]; cbn; [tauto|].
  destruct (name_eqb_spec x m) as [->|Hx]; intros [E|H].
  - congruence.
  - assumption.
  - now left.
  - right. now apply IH.
Qed.

Lemma register_paths ms : forall s paths bs s' paths',
  register s paths ms bs = (s', paths') ->
  forall n, In n paths -> (forall q, In (q, false) (combine ms bs) -> q_name q <> n) -> In n paths'.
Proof.
  induction ms as [|q ms IH]; intros s paths bs s' paths' H n Hn Hf; cbn [register] in H.
  - now injection H as <- <-.
  - destruct bs as [|b bs]; [now injection H as <- <-|]. destruct b.
    + apply (IH _ _ _ _ _ H n Hn). intros q' Hq'. apply Hf. now right.
    + apply (IH _ _ _ _ _ H n).
      * apply remove_first_other; [|assumption]. intros ->. apply (Hf q); [now left | reflexivity].
      * intros q' Hq'. apply Hf. now right.
Qed.

Lemma register_incl ms : forall s paths bs s' paths',
  register s paths ms bs = (s', paths') -> incl paths' paths.
Proof.
  induction ms as [|a ms IH]; intros s paths bs s' paths' H; cbn [register] in H; [injection H as <- <-; apply incl_refl|].
  destruct bs as [|b bs]; [injection H as <- <-; apply incl_refl|]. destruct b; [now apply (IH _ _ _ _ _ H)|].
  intros x Hx. apply (IH _ _ _ _ _ H) in Hx. now apply in_remove_first in Hx.
Qed.

Lemma remove_first_nodup m l : NoDup l -> NoDup (remove_first m l) /\ ~ In m (remove_first m l).
Proof.
  induction l as [|p l IH]; intros Hnd; cbn [remove_first]; [split; [constructor | tauto]|].
  inversion Hnd as [|? ? Hn Hd]; subst. destruct (name_eqb_spec p m) as [->|Hne]; [split; assumption|].
  destruct (IH Hd) as [A B]. split.
  - constructor; [|assumption]. intros Hin. apply Hn. now apply in_remove_first in Hin.
  - intros [E|Hin]; [congruence | contradiction].
Qed.

Lemma register_removes_failed ms : forall s paths bs s' paths' q,
  NoDup paths -> register s paths ms bs = (s', paths') -> In (q, false) (combine ms bs) -> ~ In (q_name q) paths'.
Proof.
  induction ms as [|a ms IH]; intros s paths bs s' paths' q Hnd H Hq; [destruct Hq|].
  destruct bs as [|b bs]; [destruct Hq|]. cbn [register] in H. destruct Hq as [E|Hq].
  - injection E as -> ->. intros Hin. apply (register_incl _ _ _ _ _ _ H) in Hin.
    now apply (proj2 (remove_first_nodup (q_name q) paths Hnd)).
  - destruct b.
    + now apply (IH _ _ _ _ _ q Hnd H Hq).
    + apply (IH _ _ _ _ _ q (proj1 (remove_first_nodup (q_name a) paths Hnd)) H Hq).
Qed.

Lemma combine_all (ms : list req) : forall (bs : list bool) (q : req), length bs = length ms -> In q ms -> exists b, In (q, b) (combine ms bs).
Proof.
  induction ms as [|q0 ms IH]; intros bs q Hl Hq; [destruct Hq|].
  destruct bs as [|b bs]; [discriminate|]. cbn [length] in Hl. destruct Hq as [<-|Hq].
  - exists b. now left.
  - destruct (IH bs q) as [b' Hb']; [lia | assumption|]. exists b'. now right.
Qed.

Lemma nodup_map_incl_sub (l : list req) : forall ms s s1,
  W s -> NoDup (map q_name l) -> classify s l = Some (s1, ms) -> NoDup (map q_name ms).
Proof.
  induction l as [|q l IH]; intros ms s s1 HW Hnd H; cbn [classify] in H.
  - injection H as <- <-. constructor.
  - cbn [map] in Hnd. inversion Hnd as [|? ? Hnotin Hnd']; subst.
    assert (Hmiss : forall s0, W s0 ->
              match classify s0 l with Some (s2, ms0) => Some (s2, q :: ms0) | None => None end = Some (s1, ms) ->
              NoDup (map q_name ms)).
    { intros s0 HW0 Hc. destruct (classify s0 l) as [[s2 ms0]|] eqn:E; [|discriminate]. injection Hc as <- <-.
      cbn [map]. constructor; [|now apply (IH ms0 s0 s2)].
      intros Hin. apply Hnotin. apply in_map_iff in Hin. destruct Hin as [q' [E' Hq']].
      rewrite <- E'. apply in_map.
      destruct (classify_props _ _ _ _ HW0 E) as [_ [_ [_ [_ [_ [_ [Inc _]]]]]]]. now apply Inc. }
    destruct (mem (q_name q) (entries s)).
    + assert (Hh : match dfind (disk s) (q_name q) with
                   | None => None
                   | Some f => match classify (tick (set_disk s (dupd (disk s) (q_name q) (mkfile (fcontent f) (clock s))))) l with
                               | Some (s3, m3) => Some (s3, m3) | None => None end
                   end = Some (s1, ms) -> NoDup (map q_name ms)).
      { intros Hc. destruct (dfind (disk s) (q_name q)) as [f|] eqn:Ef; [|discriminate].
        fold (touch_state s (q_name q) f (clock s)) in Hc.
        destruct (classify (touch_state s (q_name q) f (clock s)) l) as [[s3 m3]|] eqn:E3; [|discriminate]. injection Hc as <- <-.
        apply (IH m3 (touch_state s (q_name q) f (clock s)) s3); [apply W_touch; auto | assumption | assumption]. }
      destruct (q_validate q) as [[ | | ]|]; try (exact (Hh H)); apply (Hmiss (remove_item s (q_name q))); try assumption; now apply W_remove_item.
    + now apply (Hmiss s).
Qed.

(* The main statement about a request that returns. *)
Theorem get_returned_paths s l s' ps :
  Inv s -> alive s = true -> NoDup (map q_name l) -> get s l = (s', Paths ps) ->
  forall n, In n ps ->
    In n (map q_name l) /\ In n (entries s') /\
    exists f, dfind (disk s') n = Some f /\ is_complete (fcontent f) = true /\
              (forall r k, n = CName r k -> content_res (fcontent f) = Some r) /\
              clock s <= ftime f.
Proof.
  intros HI Hal Hnd Hget n Hn. pose proof HI as [HW HS]. destruct (HS Hal) as [Hcov Hsz].
  unfold get in Hget.
  destruct (classify s l) as [[s1 ms]|] eqn:Ec; [|discriminate].
  destruct (classify_props _ _ _ _ HW Ec) as [W1 [Cov1 [Sz1 [Mx1 [Al1 [Ck1 [Inc1 [Sub1 Mis1]]]]]]]].
  destruct (classify_frame _ _ _ _ Ec) as [Fr1 [Fe1 _]].
  pose proof (nodup_map_incl_sub l ms s s1 HW Hnd Ec) as Hndm.
  destruct (download_all s1 ms) as [[s2 bs] st] eqn:Ed.
  destruct (download_all_spec _ _ _ _ _ W1 Ed) as [W2 [E2 [M2 [A2 [C2 [F2 [K2 [R2 [D2 L2]]]]]]]]].
  destruct st; try discriminate.
  destruct (register s2 (map q_name l) ms bs) as [s3 paths'] eqn:Er.
  destruct (register_props _ _ _ _ _ _ W2 Er (R2 eq_refl)) as [W3 [D3 [M3 [A3 [C3 [E3 I3]]]]]].
  set (s4 := if total_size (disk s3) paths' >? maxb s3 then set_maxb s3 (total_size (disk s3) paths' + MEGABYTE) else s3) in *.
  assert (Hs4 : disk s4 = disk s3 /\ entries s4 = entries s3 /\ total_size (disk s3) paths' <= maxb s4).
  { unfold s4. destruct (Z.gtb_spec (total_size (disk s3) paths') (maxb s3)); cbn; repeat split; unfold MEGABYTE; lia. }
  destruct Hs4 as [Ds4 [Es4 Fit4]].
  assert (W4 : W s4).
  { unfold s4. destruct (_ >? _); [|assumption]. apply W_set_maxb; [assumption|].
    pose proof (total_size_nonneg (disk s3) paths'). unfold MEGABYTE. lia. }
  (* classification of the entries of s3 *)
  assert (Hret : forall x, In x paths' -> In x (map q_name l)) by (intros x Hx; now apply I3).
  assert (Hkind : forall x, In x (entries s3) ->
            (In x paths' /\ exists f, dfind (disk s3) x = Some f /\ clock s <= ftime f) \/
            (~ In x (map q_name l) /\ dfind (disk s3) x = dfind (disk s) x)).
  { intros x Hx. apply E3 in Hx. destruct Hx as [Hx|[q [Hq Hqn]]].
    - (* registered before the downloads *)
      rewrite E2 in Hx.
      assert (Hnm : forall q', In q' ms -> x <> q_name q' /\ x <> q_tmp q').
      { intros q' Hq'. split; [intros ->; now apply (Mis1 q') | intros ->]. apply (entries_are_cache s1 _ W1) in Hx. discriminate. }
      destruct (in_dec (fun a b => match name_eqb_spec a b with ReflectT _ e => left e | ReflectF _ ne => right ne end) x (map q_name l)) as [Hin|Hnin].
      + left. apply in_map_iff in Hin. destruct Hin as [q [Hqn Hq]].
        destruct (classify_fresh _ _ _ _ HW Hnd Ec q Hq) as [Hm|[He [f [Hf Ht]]]].
        * exfalso. subst x. now apply (Mis1 q).
        * subst x. split.
          -- apply (register_paths _ _ _ _ _ _ Er); [now apply in_map|].
             intros q' Hq' E. apply in_combine_l in Hq'. apply (Mis1 q' Hq'). now rewrite E.
          -- exists f. rewrite D3, D2 by assumption. split; assumption.
      + right. split; [assumption|]. rewrite D3, D2 by assumption. now apply Fr1.
    - (* downloaded by this request *)
      left. subst x. split.
      + apply (register_paths _ _ _ _ _ _ Er).
        * apply in_map. apply Inc1. now apply in_combine_l in Hq.
        * intros q' Hq' E. pose proof (combine_nodup_bool ms bs q' q false true Hndm Hq' Hq E). discriminate.
      + destruct (download_all_fresh _ _ _ _ W1 Hndm Ed q Hq) as [f [Hf Ht]]. exists f. rewrite D3. split; [assumption | lia]. }
  (* every returned path is registered in s3 *)
  assert (Hreg : forall x, In x paths' -> In x (entries s3)).
  { intros x Hx. pose proof (Hret x Hx) as Hin. apply in_map_iff in Hin. destruct Hin as [q [Hqn Hq]]. subst x.
    destruct (classify_fresh _ _ _ _ HW Hnd Ec q Hq) as [Hm|[He _]].
    - destruct (combine_all ms bs q (L2 eq_refl) Hm) as [b Hb]. destruct b.
      + apply E3. right. exists q. split; [assumption | reflexivity].
      + exfalso. (* a failed miss is removed from the returned paths *)
        apply (register_removes_failed _ _ _ _ _ _ q Hnd Er Hb). exact Hx.
    - apply E3. left. now rewrite E2. }
  (* now split on whether eviction ran *)
  assert (Hfinal : s' = (match ms with [] => s4 | _ => evict s4 end) /\ ps = paths').
  { injection Hget as <- <-. split; reflexivity. }
  destruct Hfinal as [-> ->].
  assert (Hkeep : In n (entries (match ms with [] => s4 | _ => evict s4 end)) /\
                  dfind (disk (match ms with [] => s4 | _ => evict s4 end)) n = dfind (disk s3) n).
  { destruct ms as [|q0 ms0]; [rewrite Es4, Ds4; split; [now apply Hreg | reflexivity]|].
    rewrite <- Ds4. apply (evict_loop_keeps (fun x => mem x paths')); try assumption.
    - intros a b f g Ha Hb Pa Pb Hfa Hfb. rewrite Es4 in Ha, Hb. rewrite Ds4 in Hfa, Hfb.
      apply mem_false in Pa. apply mem_true in Pb.
      destruct (Hkind a Ha) as [[Hpa _]|[Hna Hda]]; [contradiction|].
      destruct (Hkind b Hb) as [[_ [g' [Hg' Htg]]]|[Hnb _]]; [|exfalso; apply Hnb; now apply Hret].
      rewrite Hfb in Hg'. injection Hg' as <-. rewrite Hda in Hfa. pose proof (w_times s HW a f Hfa). lia.
    - intros l0 Hd0 Hl0. rewrite Ds4. etransitivity; [|exact Fit4]. apply total_size_incl; [assumption|].
      intros x Hx. destruct (Hl0 x Hx) as [_ Px]. now apply mem_true in Px.
    - rewrite Es4. now apply Hreg.
    - now apply mem_true. }
  destruct Hkeep as [Hk1 Hk2].
  split; [now apply Hret|]. split; [assumption|].
  destruct (Hkind n (Hreg n Hn)) as [[_ [f [Hf Ht]]]|[Hnn _]]; [|exfalso; apply Hnn; now apply Hret].
  exists f. rewrite Hk2. split; [assumption|].
  split; [|split; [|assumption]].
  - apply (w_complete s3 W3 n f); [|assumption]. apply (entries_are_cache s3 n W3). now apply Hreg.
  - intros r k ->. now apply (w_owner s3 W3 r k f).
Qed.
