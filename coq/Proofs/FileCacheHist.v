(* Every operation preserves the invariant; consequences over arbitrary histories. *)
From Coq Require Import ZArith List Bool Arith Lia Permutation.
From OSU.Model Require Import FileCache.
From OSU.Proofs Require Import FileCacheBase FileCacheInv FileCacheGet.
Import ListNotations.
Open Scope Z_scope.

(* ---- purge ---- *)
Lemma dfind_fold_ddel l : forall d n,
  dfind (fold_left ddel l d) n = if mem n l then None else dfind d n.
Proof.
  induction l as [|x l IH]; intros d n; cbn [fold_left]; [reflexivity|].
  rewrite IH. unfold mem. cbn [existsb]. fold (mem n l).
  destruct (name_eqb_spec n x) as [->|Hne]; cbn [orb].
  - destruct (mem x l); [reflexivity | apply dfind_ddel_same].
  - destruct (mem n l); [reflexivity | now apply dfind_ddel_other].
Qed.

Lemma nodup_keys_fold_ddel l : forall d, NoDup (keys d) -> NoDup (keys (fold_left ddel l d)).
Proof. induction l as [|x l IH]; intros d H; cbn [fold_left]; [assumption|]. apply IH. now apply nodup_keys_ddel. Qed.

Lemma purge_Inv s : Inv s -> alive s = true ->
  Inv (set_disk (set_entries s []) (fold_left ddel (entries s) (disk s))).
Proof.
  intros [HW HS] Hal. destruct (HS Hal) as [Hcov Hsz].
  assert (Hsome : forall n f, dfind (fold_left ddel (entries s) (disk s)) n = Some f ->
                              dfind (disk s) n = Some f /\ ~ In n (entries s)).
  { intros n f Hf. rewrite dfind_fold_ddel in Hf. destruct (mem n (entries s)) eqn:E; [discriminate|].
    split; [assumption | now apply mem_false]. }
  split.
  - constructor; cbn [disk entries clock maxb set_disk set_entries].
    + apply nodup_keys_fold_ddel. apply (w_keys s HW).
    + constructor.
    + intros n [].
    + intros n f Hf. apply Hsome in Hf. now apply (w_times s HW n).
    + intros n f Hc Hf. apply Hsome in Hf. now apply (w_complete s HW n).
    + intros r k f Hf. apply Hsome in Hf. now apply (w_owner s HW r k).
    + apply (w_maxb s HW).
    + apply (w_clock s HW).
  - intros _. split.
    + intros n Hc He. cbn [disk entries set_disk set_entries] in *. apply dexists_true in He.
      destruct He as [f Hf]. apply Hsome in Hf. destruct Hf as [Hf Hn]. exfalso. apply Hn.
      apply Hcov; [assumption|]. apply dexists_true. eauto.
    + unfold cache_size. cbn [entries set_disk set_entries]. rewrite total_size_nil. apply (w_maxb s HW).
Qed.

(* ---- touch / age / foreign ---- *)
Lemma set_time_Inv s n t : Inv s -> (t = clock s \/ t = - clock s) -> Inv (tick (set_time s n t)).
Proof.
  intros [HW HS] Ht. unfold set_time. destruct (dfind (disk s) n) as [f|] eqn:Ef.
  - fold (touch_state s n f t). split; [now apply W_touch|].
    intros Hal. destruct (HS Hal) as [Hcov Hsz]. split; [now apply covered_touch|].
    rewrite size_touch by assumption. exact Hsz.
  - split; [now apply W_tick|]. intros Hal. exact (HS Hal).
Qed.

Lemma foreign_Inv s j c : Inv s ->
  Inv (tick (set_disk s (dupd (disk s) (FName j) (mkfile (Blob c) (clock s))))).
Proof.
  intros [HW HS]. split.
  - apply W_write; cbn [ftime fcontent]; [assumption | left; reflexivity | discriminate | discriminate].
  - intros Hal. destruct (HS Hal) as [Hcov Hsz]. split.
    + intros n Hc He. cbn [disk entries tick set_disk] in *. apply Hcov; [assumption|].
      apply dexists_true in He. destruct He as [f Hf].
      rewrite dfind_dupd_other in Hf by (intros ->; discriminate). apply dexists_true. eauto.
    + unfold cache_size. cbn [disk entries tick set_disk maxb].
      rewrite (total_size_ext _ (disk s)); [exact Hsz|].
      intros n Hn. apply fsize_dupd_other. intros ->. apply (entries_are_cache s _ HW) in Hn. discriminate.
Qed.

(* ---- reopen ---- *)
Lemma covered_reopen s : covered (set_alive (set_entries s (cache_names_on_disk (disk s))) true).
Proof.
  intros n Hc He. cbn [disk entries set_alive set_entries] in *. unfold cache_names_on_disk.
  apply filter_In. split; [|assumption]. apply dexists_true in He. destruct He as [f Hf]. now apply dfind_some_in in Hf.
Qed.

Theorem step_Inv s o : Inv s -> Inv (fst (step s o)).
Proof.
  intros HI. pose proof HI as [HW HS].
  destruct o as [l|r k| |ev|n|n|j c|p a]; cbn [step].
  - destruct (alive s) eqn:Hal; [|exact HI]. cbn [step_alive]. now apply get_Inv.
  - destruct (alive s) eqn:Hal; [|exact HI]. cbn [step_alive fst]. split; [now apply W_remove_item|].
    unfold S. rewrite remove_item_alive. intros _. destruct (HS Hal) as [Hcov Hsz]. split; [now apply covered_remove_item|].
    rewrite remove_item_maxb. pose proof (size_remove_item s (CName r k) HW). lia.
  - destruct (alive s) eqn:Hal; [|exact HI]. cbn [step_alive fst]. now apply purge_Inv.
  - set (s1 := set_alive (set_entries s (cache_names_on_disk (disk s))) true).
    assert (W1 : W s1) by (apply W_set_alive; now apply W_set_entries_disk).
    assert (C1 : covered s1) by apply covered_reopen.
    destruct ev; cbn [fst].
    + now apply evict_Inv.
    + destruct (Z.gtb_spec (cache_size s1) (maxb s1)); cbn [fst].
      * split; [now apply W_set_alive|]. intros Hx. cbn in Hx. discriminate.
      * split; [assumption|]. intros _. split; [assumption | lia].
  - cbn [fst]. apply set_time_Inv; [assumption | left; reflexivity].
  - cbn [fst]. apply set_time_Inv; [assumption | right; reflexivity].
  - cbn [fst]. now apply foreign_Inv.
  - destruct (alive s) eqn:Hal; [|exact HI]. cbn [step_alive fst]. split.
    + destruct HW as [K1 K2 K3 K4 K5 K6 K7 K8]. constructor; cbn; assumption.
    + intros _. exact (HS Hal).
Qed.

Theorem run_Inv ops : forall s, Inv s -> Inv (run s ops).
Proof.
  unfold run. induction ops as [|o ops IH]; intros s H; cbn [fold_left]; [assumption|].
  apply IH. now apply step_Inv.
Qed.

Theorem inv_all_histories m p a ops : 0 <= m -> Inv (run (init m p a) ops).
Proof. intros H. apply run_Inv. now apply Inv_init. Qed.

(* ---- consequences ---- *)
Lemma entries_iff s : Inv s -> alive s = true ->
  forall n, In n (entries s) <-> (is_cache_name n = true /\ dexists (disk s) n = true).
Proof.
  intros [HW HS] Hal n. destruct (HS Hal) as [Hcov _]. split.
  - apply (w_entries_on_disk s HW).
  - intros [A B]. now apply Hcov.
Qed.

Lemma len_eq_files s : Inv s -> alive s = true ->
  length (entries s) = length (cache_names_on_disk (disk s)).
Proof.
  intros HI Hal. apply Permutation_length. apply NoDup_Permutation.
  - apply (w_entries s (proj1 HI)).
  - unfold cache_names_on_disk. apply NoDup_filter. apply (w_keys s (proj1 HI)).
  - intros n. rewrite (entries_iff s HI Hal). unfold cache_names_on_disk. rewrite filter_In.
    split; intros [A B]; split; try assumption.
    + apply dexists_true in B. destruct B as [f Hf]. now apply dfind_some_in in Hf.
    + apply dexists_true. now apply in_keys_dfind.
Qed.

Lemma evict_loop_entries_sub fuel : forall s x, In x (entries (evict_loop fuel s)) -> In x (entries s).
Proof.
  induction fuel as [|fuel IH]; intros s x H; cbn [evict_loop] in H; [assumption|].
  destruct (cache_size s >? maxb s); [|assumption]. destruct (oldest s) as [n|]; [|assumption].
  apply IH in H. unfold remove_item in H. destruct (mem n (entries s)); [|assumption].
  cbn in H. apply in_remove_name in H. tauto.
Qed.

(* eviction is least-recently-used first: whatever is evicted is not newer than whatever stays *)
Lemma evict_loop_lru fuel : forall s, W s ->
  forall n m f g, In n (entries s) -> ~ In n (entries (evict_loop fuel s)) ->
                  In m (entries (evict_loop fuel s)) ->
                  dfind (disk s) n = Some f -> dfind (disk s) m = Some g -> ftime f <= ftime g.
Proof.
  induction fuel as [|fuel IH]; intros s HW n m f g Hn Hgone Hm Hf Hg; cbn [evict_loop] in *; [contradiction|].
  destruct (cache_size s >? maxb s); [|contradiction].
  destruct (oldest s) as [n0|] eqn:Eo; [|contradiction].
  destruct (oldest_spec s n0 Eo) as [Hin0 [f0 [Hf0 Hmin]]].
  assert (Hm_s : In m (entries (remove_item s n0))) by (now apply evict_loop_entries_sub in Hm).
  assert (Hm_s' : In m (entries s)).
  { unfold remove_item in Hm_s. destruct (mem n0 (entries s)); [|assumption].
    cbn in Hm_s. apply in_remove_name in Hm_s. tauto. }
  destruct (name_eqb_spec n n0) as [->|Hne].
  - rewrite Hf0 in Hf. injection Hf as <-. now apply (Hmin m g).
  - assert (Hm_ne : m <> n0).
    { intros ->. unfold remove_item in Hm_s. apply mem_true in Hin0. rewrite Hin0 in Hm_s.
      cbn in Hm_s. apply in_remove_name in Hm_s. tauto. }
    apply (IH (remove_item s n0) (W_remove_item s n0 HW) n m f g); try assumption.
    + unfold remove_item. apply mem_true in Hin0. rewrite Hin0. cbn. apply in_remove_name. tauto.
    + unfold remove_item. apply mem_true in Hin0. rewrite Hin0. cbn. now rewrite dfind_ddel_other.
    + unfold remove_item. apply mem_true in Hin0. rewrite Hin0. cbn. now rewrite dfind_ddel_other.
Qed.

Lemma evict_lru s : W s ->
  forall n m f g, In n (entries s) -> ~ In n (entries (evict s)) -> In m (entries (evict s)) ->
                  dfind (disk s) n = Some f -> dfind (disk s) m = Some g -> ftime f <= ftime g.
Proof. intros HW. apply evict_loop_lru. exact HW. Qed.
