(* Proofs about Model/Moments.v (C01). *)
From Coq Require Import Reals List Lra Lia ZArith Sorting.Sorted.
From OSU.Lib Require Import Sums Trapz WeightedCS.
From OSU.Model Require Import Moments.
Import ListNotations.
Open Scope R_scope.

(* ------------------------------------------------------------------ *)
(* small facts                                                          *)
(* ------------------------------------------------------------------ *)
Lemma div_nonneg : forall a b, 0 <= a -> 0 < b -> 0 <= a / b.
Proof.
  intros a b Ha Hb. unfold Rdiv. apply Rmult_le_pos; [assumption|].
  apply Rlt_le, Rinv_0_lt_compat. assumption.
Qed.

Lemma integrand_eq : forall n p, integrand n p = fill0 (snd p) * fst p ^ n.
Proof. intros n [x [v|]]; unfold integrand; cbn; lra. Qed.

Lemma in_band_true : forall fmin fmax x,
  in_band fmin fmax x = true <->
  fmin <= x /\ match fmax with None => True | Some m => x < m end.
Proof.
  intros fmin fmax x. unfold in_band.
  destruct (Rle_dec fmin x) as [H|H].
  - destruct fmax as [m|].
    + destruct (Rlt_dec x m) as [H1|H1].
      * split; [intros _; split; assumption | reflexivity].
      * split; [discriminate | intros [_ H2]; contradiction].
    + split; [intros _; split; [assumption | exact I] | reflexivity].
  - split; [discriminate | intros [H1 _]; contradiction].
Qed.

(* membership in the selected points = membership in the grid + the half-open band test *)
Lemma band_pts_spec : forall fmin fmax f e p,
  In p (band_pts fmin fmax f e) <->
  In p (combine f e) /\ fmin <= fst p /\ match fmax with None => True | Some m => fst p < m end.
Proof.
  intros. unfold band_pts. rewrite filter_In, in_band_true. tauto.
Qed.

Lemma consecutive_map : forall (A B : Type) (g : A -> B) l,
  consecutive (map g l) = map (fun s => (g (fst s), g (snd s))) (consecutive l).
Proof.
  intros A B g l. unfold consecutive.
  assert (H : forall (l1 l2 : list A), combine (map g l1) (map g l2)
            = map (fun s => (g (fst s), g (snd s))) (combine l1 l2)).
  { induction l1; intros [|b l2]; cbn; try reflexivity. rewrite IHl1. reflexivity. }
  rewrite <- H. destruct l; reflexivity.
Qed.

(* ------------------------------------------------------------------ *)
(* moment = trapezoid segment sum, NaN -> 0 after the product           *)
(* ------------------------------------------------------------------ *)
Definition segment_term (n : nat) (s : (R * option R) * (R * option R)) : R :=
  (fst (snd s) - fst (fst s)) * (1 / 2)
  * (fill0 (snd (snd s)) * fst (snd s) ^ n + fill0 (snd (fst s)) * fst (fst s) ^ n).

Lemma moment_trapezoid : forall n fmin fmax f e,
  moment n fmin fmax f e
  = sumR (map (segment_term n) (consecutive (band_pts fmin fmax f e))).
Proof.
  intros. unfold moment. rewrite trapz_segments. unfold pts.
  rewrite consecutive_map, map_map. apply sumR_map_ext.
  intros [[x0 e0] [x1 e1]] _. unfold seg, segment_term. cbn [fst snd].
  rewrite !integrand_eq. cbn [fst snd]. reflexivity.
Qed.

Lemma moment_short_band : forall n fmin fmax f e,
  (length (band_pts fmin fmax f e) <= 1)%nat -> moment n fmin fmax f e = 0.
Proof.
  intros n fmin fmax f e H. unfold moment.
  destruct (band_pts fmin fmax f e) as [|p [|q t]]; cbn in H; try lia.
  - reflexivity.
  - unfold pts. cbn [map]. apply trapz_single.
Qed.

Lemma moment_empty_band : forall n fmin fmax f e,
  (forall x, In x f -> in_band fmin fmax x = false) -> moment n fmin fmax f e = 0.
Proof.
  intros n fmin fmax f e H. apply moment_short_band.
  replace (band_pts fmin fmax f e) with (@nil (R * option R)); [cbn; lia|].
  symmetry. unfold band_pts.
  assert (G : forall l : list (R * option R),
            (forall p, In p l -> in_band fmin fmax (fst p) = false) ->
            filter (fun p => in_band fmin fmax (fst p)) l = []).
  { induction l as [|p l IH]; intros Hl; [reflexivity|]. cbn [filter].
    rewrite (Hl p (or_introl eq_refl)). apply IH. intros; apply Hl; right; assumption. }
  apply G. intros [x o] Hp. apply H. apply (in_combine_l _ _ _ _ Hp).
Qed.

(* ------------------------------------------------------------------ *)
(* linearity                                                            *)
(* ------------------------------------------------------------------ *)
(* generic form: the spectrum is the image of any list under [val] *)
Lemma combine_map_r : forall (A B C : Type) (g : B -> C) (l : list A) (l' : list B),
  combine l (map g l') = map (fun p => (fst p, g (snd p))) (combine l l').
Proof. induction l; intros [|b l']; cbn; try reflexivity. rewrite IHl. reflexivity. Qed.

Lemma filter_map_comm : forall (A B : Type) (h : A -> B) (P : B -> bool) l,
  filter P (map h l) = map h (filter (fun a => P (h a)) l).
Proof.
  induction l; cbn; [reflexivity|]. destruct (P (h a)); cbn; rewrite IHl; reflexivity.
Qed.

Lemma moment_gen : forall (X : Type) (val : X -> option R) n fmin fmax f (xs : list X),
  moment n fmin fmax f (map val xs)
  = trapz (pts fst (fun p => integrand n (fst p, val (snd p)))
               (filter (fun p => in_band fmin fmax (fst p)) (combine f xs))).
Proof.
  intros. unfold moment, band_pts. rewrite combine_map_r, filter_map_comm. cbn [fst].
  unfold pts. rewrite map_map. reflexivity.
Qed.

Lemma moment_scale : forall n fmin fmax f e c,
  moment n fmin fmax f (scale_spec c e) = c * moment n fmin fmax f e.
Proof.
  intros. unfold scale_spec. rewrite moment_gen.
  rewrite <- (map_id e) at 2. rewrite moment_gen.
  rewrite <- trapz_scale. apply trapz_ext. intros [x [v|]] _; unfold integrand; cbn; lra.
Qed.

Lemma Forall2_combine : forall (A B : Type) (Rel : A -> B -> Prop) l l',
  Forall2 Rel l l' ->
  map fst (combine l l') = l /\ map snd (combine l l') = l' /\
  forall p, In p (combine l l') -> Rel (fst p) (snd p).
Proof.
  induction 1 as [|a b l l' Hab H IH]; cbn; [tauto|].
  destruct IH as [I1 [I2 I3]]. rewrite I1, I2. repeat split.
  intros p [<-|Hp]; [exact Hab | apply I3; assumption].
Qed.

Lemma moment_add : forall n fmin fmax f e e',
  same_mask e e' ->
  moment n fmin fmax f (add_spec e e') = moment n fmin fmax f e + moment n fmin fmax f e'.
Proof.
  intros n fmin fmax f e e' Hm.
  destruct (Forall2_combine _ _ _ _ _ Hm) as [H1 [H2 H3]].
  unfold add_spec. rewrite moment_gen.
  rewrite <- H1 at 2. rewrite <- H2 at 3. rewrite !moment_gen.
  rewrite <- trapz_add. apply trapz_ext.
  intros [x [a b]] Hin. apply filter_In in Hin. destruct Hin as [Hin _].
  apply in_combine_r in Hin. specialize (H3 _ Hin). cbn [fst snd] in *.
  destruct a as [va|], b as [vb|]; unfold integrand; cbn; try lra.
  - destruct H3 as [_ H3]. discriminate (H3 eq_refl).
  - destruct H3 as [H3 _]. discriminate (H3 eq_refl).
Qed.

(* ------------------------------------------------------------------ *)
(* hm0 / tm01 / tm02 under scaling                                      *)
(* ------------------------------------------------------------------ *)
Lemma hm0_scale_pos : forall fmin fmax f e c, 0 < c ->
  hm0 fmin fmax f (scale_spec c e) = option_map (Rmult (sqrt c)) (hm0 fmin fmax f e).
Proof.
  intros fmin fmax f e c Hc. unfold hm0, m0. rewrite moment_scale.
  set (a := moment 0 fmin fmax f e).
  destruct (Rlt_dec a 0) as [Ha|Ha].
  - assert (c * a < 0) by (assert (0 < c * (- a)) by (apply Rmult_lt_0_compat; lra); lra).
    destruct (Rlt_dec (c * a) 0); [reflexivity | contradiction].
  - assert (0 <= c * a) by (apply Rmult_le_pos; lra).
    destruct (Rlt_dec (c * a) 0); [lra|]. cbn [option_map].
    rewrite sqrt_mult by lra. f_equal. ring.
Qed.

Lemma hm0_scale : forall fmin fmax f e c h, 0 <= c ->
  hm0 fmin fmax f e = Some h ->
  hm0 fmin fmax f (scale_spec c e) = Some (sqrt c * h).
Proof.
  intros fmin fmax f e c h Hc. unfold hm0, m0. rewrite moment_scale.
  set (a := moment 0 fmin fmax f e).
  destruct (Rlt_dec a 0) as [Ha|Ha]; [discriminate|]. intros Hh. inversion Hh; subst h.
  assert (0 <= c * a) by (apply Rmult_le_pos; lra).
  destruct (Rlt_dec (c * a) 0); [lra|]. rewrite sqrt_mult by lra. f_equal. ring.
Qed.

Lemma tm01_scale_inv : forall fmin fmax f e c, c <> 0 ->
  tm01 fmin fmax f (scale_spec c e) = tm01 fmin fmax f e.
Proof.
  intros fmin fmax f e c Hc. unfold tm01, m0, m1. rewrite !moment_scale.
  set (a := moment 0 fmin fmax f e). set (b := moment 1 fmin fmax f e).
  destruct (Req_EM_T b 0) as [Hb|Hb].
  - subst b. rewrite Hb, Rmult_0_r. destruct (Req_EM_T 0 0); [reflexivity | lra].
  - destruct (Req_EM_T (c * b) 0) as [Hcb|Hcb].
    + apply Rmult_integral in Hcb. tauto.
    + f_equal. field. tauto.
Qed.

Lemma tm02_scale_inv : forall fmin fmax f e c, c <> 0 ->
  tm02 fmin fmax f (scale_spec c e) = tm02 fmin fmax f e.
Proof.
  intros fmin fmax f e c Hc. unfold tm02, m0, m2. rewrite !moment_scale.
  set (a := moment 0 fmin fmax f e). set (b := moment 2 fmin fmax f e).
  destruct (Req_EM_T b 0) as [Hb|Hb].
  - subst b. rewrite Hb, Rmult_0_r. destruct (Req_EM_T 0 0); [reflexivity | lra].
  - destruct (Req_EM_T (c * b) 0) as [Hcb|Hcb].
    + apply Rmult_integral in Hcb. tauto.
    + replace (c * a / (c * b)) with (a / b) by (field; tauto). reflexivity.
Qed.

(* ------------------------------------------------------------------ *)
(* endpoint-weight form and the Cauchy-Schwarz consequences             *)
(* ------------------------------------------------------------------ *)
Definition nonneg_spec (e : list (option R)) : Prop := forall v, In (Some v) e -> 0 <= v.

(* terms (p_k, x_k) = (w_k * fill0 e_k, f_k) over the selected points *)
Definition cs_terms (l : list (R * option R)) : list (R * R) :=
  map (fun wa => (fst wa * fill0 (snd (snd wa)), fst (snd wa))) (combine (weights (map fst l)) l).

Lemma moment_weighted : forall n fmin fmax f e,
  moment n fmin fmax f e
  = sumR (map (fun t => fst t * snd t ^ n) (cs_terms (band_pts fmin fmax f e))).
Proof.
  intros. unfold moment. rewrite trapz_weights. unfold wsum, cs_terms, weights.
  rewrite map_map. apply sumR_map_ext. intros [w [x o]] _. cbn [fst snd].
  rewrite integrand_eq. cbn [fst snd]. ring.
Qed.

Lemma m0_S0 : forall fmin fmax f e, m0 fmin fmax f e = S0 (cs_terms (band_pts fmin fmax f e)).
Proof. intros. unfold m0. rewrite moment_weighted. unfold S0. apply sumR_map_ext. intros; cbn; lra. Qed.
Lemma m1_S1 : forall fmin fmax f e, m1 fmin fmax f e = S1 (cs_terms (band_pts fmin fmax f e)).
Proof. intros. unfold m1. rewrite moment_weighted. unfold S1. apply sumR_map_ext. intros; cbn; lra. Qed.
Lemma m2_S2 : forall fmin fmax f e, m2 fmin fmax f e = S2 (cs_terms (band_pts fmin fmax f e)).
Proof. intros. unfold m2. rewrite moment_weighted. unfold S2. apply sumR_map_ext. intros; cbn; lra. Qed.

(* sortedness survives the selection *)
Lemma sorted_combine_fst : forall (f : list R) (e : list (option R)),
  StronglySorted Rlt f -> StronglySorted Rlt (map fst (combine f e)).
Proof.
  induction f as [|a f IH]; intros e Hs; [constructor|].
  destruct e as [|o e]; [constructor|]. cbn [combine map fst].
  inversion Hs as [|? ? Hs' Hall]; subst. constructor; [apply IH; assumption|].
  rewrite Forall_forall in *. intros x Hx. apply Hall.
  apply in_map_iff in Hx. destruct Hx as [[y o'] [<- Hy]]. apply (in_combine_l _ _ _ _ Hy).
Qed.

Lemma sorted_filter_fst : forall (P : R * option R -> bool) l,
  StronglySorted Rlt (map fst l) -> StronglySorted Rlt (map fst (filter P l)).
Proof.
  induction l as [|p l IH]; intros Hs; [constructor|]. cbn [map] in Hs.
  inversion Hs as [|? ? Hs' Hall]; subst. cbn [filter].
  destruct (P p); [|apply IH; assumption]. cbn [map]. constructor; [apply IH; assumption|].
  rewrite Forall_forall in *. intros x Hx. apply Hall.
  apply in_map_iff in Hx. destruct Hx as [q [<- Hq]]. apply filter_In in Hq.
  apply in_map. tauto.
Qed.

Lemma band_sorted : forall fmin fmax f e,
  StronglySorted Rlt f -> StronglySorted Rlt (map fst (band_pts fmin fmax f e)).
Proof. intros. unfold band_pts. apply sorted_filter_fst, sorted_combine_fst. assumption. Qed.

Lemma band_nonneg : forall fmin fmax f e p,
  nonneg_spec e -> In p (band_pts fmin fmax f e) -> 0 <= fill0 (snd p).
Proof.
  intros fmin fmax f e [x [v|]] Hn Hp; cbn; [|lra].
  apply Hn. apply band_pts_spec in Hp. destruct Hp as [Hp _]. apply (in_combine_r _ _ _ _ Hp).
Qed.

Lemma in_cs_terms : forall l t, In t (cs_terms l) ->
  exists w p, In (w, p) (combine (weights (map fst l)) l) /\ t = (w * fill0 (snd p), fst p).
Proof.
  intros l t Ht. unfold cs_terms in Ht. apply in_map_iff in Ht.
  destruct Ht as [[w p] [<- Hin]]. exists w, p. split; [assumption | reflexivity].
Qed.

Lemma cs_terms_nonneg : forall fmin fmax f e,
  StronglySorted Rlt f -> nonneg_spec e -> wnonneg (cs_terms (band_pts fmin fmax f e)).
Proof.
  intros fmin fmax f e Hs Hn t Ht. apply in_cs_terms in Ht.
  destruct Ht as [w [p [Hin ->]]]. cbn [fst].
  apply Rmult_le_pos.
  - pose proof (weights_nonneg _ (band_sorted fmin fmax f e Hs)) as Hw.
    rewrite Forall_forall in Hw. apply Hw. apply (in_combine_l _ _ _ _ Hin).
  - apply (band_nonneg fmin fmax f e); [assumption | apply (in_combine_r _ _ _ _ Hin)].
Qed.

Lemma cs_terms_freq : forall l t, In t (cs_terms l) -> In (snd t) (map fst l).
Proof.
  intros l t Ht. apply in_cs_terms in Ht. destruct Ht as [w [p [Hin ->]]]. cbn [snd].
  apply in_map. apply (in_combine_r _ _ _ _ Hin).
Qed.

(* m1^2 <= m0 m2 *)
Lemma moments_cauchy_schwarz : forall fmin fmax f e,
  StronglySorted Rlt f -> nonneg_spec e ->
  m1 fmin fmax f e * m1 fmin fmax f e <= m2 fmin fmax f e * m0 fmin fmax f e.
Proof.
  intros. rewrite m0_S0, m1_S1, m2_S2. apply weighted_cauchy_schwarz.
  apply cs_terms_nonneg; assumption.
Qed.

Lemma m0_nonneg : forall fmin fmax f e,
  StronglySorted Rlt f -> nonneg_spec e -> 0 <= m0 fmin fmax f e.
Proof. intros. rewrite m0_S0. apply S0_nonneg, cs_terms_nonneg; assumption. Qed.

Lemma tm_values : forall fmin fmax f e,
  0 < m0 fmin fmax f e -> 0 < m1 fmin fmax f e -> 0 < m2 fmin fmax f e ->
  tm01 fmin fmax f e = Some (m0 fmin fmax f e / m1 fmin fmax f e) /\
  tm02 fmin fmax f e = Some (sqrt (m0 fmin fmax f e / m2 fmin fmax f e)).
Proof.
  intros fmin fmax f e H0 H1 H2. unfold tm01, tm02.
  destruct (Req_EM_T (m1 fmin fmax f e) 0); [lra|].
  destruct (Req_EM_T (m2 fmin fmax f e) 0); [lra|].
  assert (0 < m0 fmin fmax f e / m2 fmin fmax f e) by (apply Rdiv_lt_0_compat; assumption).
  destruct (Rlt_dec (m0 fmin fmax f e / m2 fmin fmax f e) 0); [lra|]. split; reflexivity.
Qed.

Lemma m0_pos_of : forall fmin fmax f e,
  StronglySorted Rlt f -> nonneg_spec e ->
  0 < m1 fmin fmax f e -> 0 < m2 fmin fmax f e -> 0 < m0 fmin fmax f e.
Proof.
  intros fmin fmax f e Hs Hn H1 H2.
  pose proof (moments_cauchy_schwarz fmin fmax f e Hs Hn) as CS.
  pose proof (m0_nonneg fmin fmax f e Hs Hn) as H0.
  destruct (Req_dec (m0 fmin fmax f e) 0) as [Hz|Hz]; [|lra].
  rewrite Hz, Rmult_0_r in CS.
  assert (0 < m1 fmin fmax f e * m1 fmin fmax f e) by (apply Rmult_lt_0_compat; assumption). lra.
Qed.

Lemma sqrt_ratio_le : forall a b c, 0 < a -> 0 < b -> 0 < c -> b * b <= c * a ->
  sqrt (a / c) <= a / b.
Proof.
  intros a b c Ha Hb Hc H.
  assert (Ht : 0 < a / b) by (apply Rdiv_lt_0_compat; assumption).
  rewrite <- (sqrt_square (a / b)) by lra.
  apply sqrt_le_1_alt.
  assert (E : a / b * (a / b) - a / c = a * (c * a - b * b) / (b * b * c)) by (field; lra).
  assert (0 <= a * (c * a - b * b) / (b * b * c)).
  { apply div_nonneg.
    - apply Rmult_le_pos; lra.
    - apply Rmult_lt_0_compat; [apply Rmult_lt_0_compat|]; assumption. }
  lra.
Qed.

Lemma tm02_le_tm01 : forall fmin fmax f e,
  StronglySorted Rlt f -> nonneg_spec e ->
  0 < m1 fmin fmax f e -> 0 < m2 fmin fmax f e ->
  exists t1 t2, tm01 fmin fmax f e = Some t1 /\ tm02 fmin fmax f e = Some t2 /\ t2 <= t1.
Proof.
  intros fmin fmax f e Hs Hn H1 H2.
  pose proof (m0_pos_of fmin fmax f e Hs Hn H1 H2) as H0.
  destruct (tm_values fmin fmax f e H0 H1 H2) as [E1 E2].
  eexists; eexists; split; [exact E1 | split; [exact E2|]].
  apply sqrt_ratio_le; try assumption.
  apply moments_cauchy_schwarz; assumption.
Qed.

(* ---- bounds by the first and last frequency of the band ---- *)
Lemma sorted_bounds : forall (l : list R) a x,
  StronglySorted Rlt (a :: l) -> In x (a :: l) -> a <= x <= last (a :: l) 0.
Proof.
  intros l. induction l as [|b l IH]; intros a x Hs Hx.
  - destruct Hx as [<-|[]]. cbn. lra.
  - inversion Hs as [|? ? Hs' Hall]; subst.
    assert (Hab : a < b) by (inversion Hall; assumption).
    change (last (a :: b :: l) 0) with (last (b :: l) 0).
    destruct Hx as [<-|Hx].
    + pose proof (IH b b Hs' (or_introl eq_refl)). lra.
    + pose proof (IH b x Hs' Hx). lra.
Qed.

Lemma sqrt_inv_sq : forall b, 0 < b -> sqrt (1 / (b * b)) = 1 / b.
Proof.
  intros b Hb. replace (1 / (b * b)) with ((1 / b) * (1 / b)) by (field; lra).
  apply sqrt_square. apply Rlt_le, Rdiv_lt_0_compat; lra.
Qed.

Lemma periods_bounded : forall fmin fmax f e fa l,
  StronglySorted Rlt f -> nonneg_spec e ->
  0 < m1 fmin fmax f e -> 0 < m2 fmin fmax f e ->
  map fst (band_pts fmin fmax f e) = fa :: l -> 0 < fa ->
  let fb := last (fa :: l) 0 in
  exists t1 t2, tm01 fmin fmax f e = Some t1 /\ tm02 fmin fmax f e = Some t2 /\
                1 / fb <= t2 /\ t2 <= t1 /\ t1 <= 1 / fa.
Proof.
  intros fmin fmax f e fa l Hs Hn H1 H2 Hb Hfa fb.
  pose proof (m0_pos_of fmin fmax f e Hs Hn H1 H2) as H0.
  destruct (tm_values fmin fmax f e H0 H1 H2) as [E1 E2].
  pose proof (cs_terms_nonneg fmin fmax f e Hs Hn) as Hw.
  pose proof (band_sorted fmin fmax f e Hs) as Hbs. rewrite Hb in Hbs.
  assert (Hrange : forall t, In t (cs_terms (band_pts fmin fmax f e)) -> fa <= snd t <= fb).
  { intros t Ht. apply cs_terms_freq in Ht. rewrite Hb in Ht. apply sorted_bounds; assumption. }
  assert (Hfb : fa <= fb) by (apply (sorted_bounds l fa fa Hbs); left; reflexivity).
  eexists; eexists; split; [exact E1 | split; [exact E2|]]. repeat split.
  - (* 1/fb <= sqrt(m0/m2) *)
    assert (U : m2 fmin fmax f e <= fb * fb * m0 fmin fmax f e).
    { rewrite m0_S0, m2_S2. apply S2_upper; [assumption|].
      intros t Ht. specialize (Hrange t Ht). lra. }
    rewrite <- (sqrt_inv_sq fb) by lra. apply sqrt_le_1_alt.
    assert (0 < fb * fb) by (apply Rmult_lt_0_compat; lra).
    assert (E : m0 fmin fmax f e / m2 fmin fmax f e - 1 / (fb * fb)
                = (fb * fb * m0 fmin fmax f e - m2 fmin fmax f e) / (m2 fmin fmax f e * (fb * fb)))
      by (field; lra).
    assert (0 <= (fb * fb * m0 fmin fmax f e - m2 fmin fmax f e) / (m2 fmin fmax f e * (fb * fb))).
    { apply div_nonneg; [lra | apply Rmult_lt_0_compat; assumption]. }
    lra.
  - apply sqrt_ratio_le; try assumption. apply moments_cauchy_schwarz; assumption.
  - (* m0/m1 <= 1/fa *)
    assert (L : fa * m0 fmin fmax f e <= m1 fmin fmax f e).
    { rewrite m0_S0, m1_S1. apply S1_lower; [assumption|].
      intros t Ht. specialize (Hrange t Ht). lra. }
    assert (E : 1 / fa - m0 fmin fmax f e / m1 fmin fmax f e
                = (m1 fmin fmax f e - fa * m0 fmin fmax f e) / (fa * m1 fmin fmax f e))
      by (field; lra).
    assert (0 <= (m1 fmin fmax f e - fa * m0 fmin fmax f e) / (fa * m1 fmin fmax f e)).
    { apply div_nonneg; [lra | apply Rmult_lt_0_compat; assumption]. }
    lra.
Qed.

(* ------------------------------------------------------------------ *)
(* batches                                                              *)
(* ------------------------------------------------------------------ *)
Lemma moment_batch_nth : forall n fmin fmax f es d i,
  nth i (moment_batch n fmin fmax f es) (moment n fmin fmax f d)
  = moment n fmin fmax f (nth i es d).
Proof. intros. unfold moment_batch. apply map_nth. Qed.

Lemma moment_batch_length : forall n fmin fmax f es,
  length (moment_batch n fmin fmax f es) = length es.
Proof. intros. unfold moment_batch. apply map_length. Qed.

Lemma bulk_batch_nth : forall fmin fmax f es d i,
  nth i (hm0_batch fmin fmax f es) (hm0 fmin fmax f d) = hm0 fmin fmax f (nth i es d) /\
  nth i (tm01_batch fmin fmax f es) (tm01 fmin fmax f d) = tm01 fmin fmax f (nth i es d) /\
  nth i (tm02_batch fmin fmax f es) (tm02 fmin fmax f d) = tm02 fmin fmax f (nth i es d).
Proof. intros. unfold hm0_batch, tm01_batch, tm02_batch. repeat split; apply map_nth. Qed.

(* the value at point i does not depend on the other members of the batch *)
Lemma moment_batch_independent : forall n fmin fmax f es es' d i,
  nth i es d = nth i es' d ->
  nth i (moment_batch n fmin fmax f es) (moment n fmin fmax f d)
  = nth i (moment_batch n fmin fmax f es') (moment n fmin fmax f d).
Proof. intros. rewrite !moment_batch_nth. congruence. Qed.

(* ------------------------------------------------------------------ *)
(* 2D spectra                                                           *)
(* ------------------------------------------------------------------ *)
Lemma dint_scale : forall row dth c, dint (scale_spec c row) dth = c * dint row dth.
Proof.
  intros. unfold dint, scale_spec.
  assert (H : forall (r : list (option R)) (d : list R),
     combine (map (fun o => omul o c) r) d
     = map (fun p => (omul (fst p) c, snd p)) (combine r d)).
  { induction r; intros [|x d]; cbn; try reflexivity. rewrite IHr. reflexivity. }
  rewrite H, map_map. rewrite <- sumR_map_scale. apply sumR_map_ext.
  intros [[v|] x] _; cbn; lra.
Qed.

Lemma e2d_scale : forall th E c, e2d th (scale_spec2d c E) = scale_spec c (e2d th E).
Proof.
  intros. unfold e2d, scale_spec2d, scale_spec. rewrite !map_map. apply map_ext.
  intros row. fold (scale_spec c row). rewrite dint_scale. cbn. f_equal. ring.
Qed.

Lemma moment2d_scale : forall n fmin fmax f th E c,
  moment2d n fmin fmax f th (scale_spec2d c E) = c * moment2d n fmin fmax f th E.
Proof. intros. unfold moment2d. rewrite e2d_scale. apply moment_scale. Qed.

Lemma e2d_never_nan : forall th E o, In o (e2d th E) -> o <> None.
Proof.
  intros th E o H. unfold e2d in H. apply in_map_iff in H. destruct H as [row [<- _]]. discriminate.
Qed.

Lemma e2d_nonneg : forall th E,
  Forall (fun d => 0 <= d) (dstep th) ->
  (forall row, In row E -> nonneg_spec row) -> nonneg_spec (e2d th E).
Proof.
  intros th E Hd HE v Hv. unfold e2d in Hv. apply in_map_iff in Hv.
  destruct Hv as [row [Heq Hrow]]. inversion Heq; subst v.
  unfold dint. apply sumR_map_nonneg. intros [o d] Hin. cbn [fst snd].
  rewrite Forall_forall in Hd. pose proof (Hd d (in_combine_r _ _ _ _ Hin)) as Hdd.
  destruct o as [x|]; cbn; [|lra].
  apply Rmult_le_pos; [|assumption].
  apply (HE row Hrow). apply (in_combine_l _ _ _ _ Hin).
Qed.

Lemma tm02_le_tm01_2d : forall fmin fmax f th E,
  StronglySorted Rlt f -> Forall (fun d => 0 <= d) (dstep th) ->
  (forall row, In row E -> nonneg_spec row) ->
  0 < moment2d 1 fmin fmax f th E -> 0 < moment2d 2 fmin fmax f th E ->
  exists t1 t2, tm01_2d fmin fmax f th E = Some t1 /\ tm02_2d fmin fmax f th E = Some t2 /\ t2 <= t1.
Proof.
  intros. unfold tm01_2d, tm02_2d. apply tm02_le_tm01; try assumption.
  apply e2d_nonneg; assumption.
Qed.

(* the wrapped step is the plain difference when that lies in [-180, 180) *)
Lemma Int_part_unit : forall r, 0 <= r < 1 -> Int_part r = 0%Z.
Proof.
  intros r Hr. unfold Int_part.
  assert (1%Z = up r) as <-; [|reflexivity].
  apply tech_up; cbn; lra.
Qed.

Lemma wrap360_id : forall d, -180 <= d < 180 -> wrap360 d = d.
Proof.
  intros d Hd. unfold wrap360, fmod.
  rewrite Int_part_unit.
  - cbn. lra.
  - split.
    + apply Rmult_le_pos; [lra|]. apply Rlt_le, Rinv_0_lt_compat. lra.
    + apply (Rmult_lt_reg_r 360); [lra|]. unfold Rdiv. rewrite Rmult_assoc, Rinv_l by lra. lra.
Qed.

Lemma wrap360_down : forall d, 180 <= d < 540 -> wrap360 d = d - 360.
Proof.
  intros d Hd. unfold wrap360, fmod.
  replace (Int_part ((d + 360 - 180) / 360)) with 1%Z.
  - cbn. lra.
  - unfold Int_part. assert (2%Z = up ((d + 360 - 180) / 360)) as <-; [|reflexivity].
    apply tech_up; cbn.
    + apply (Rmult_lt_reg_r 360); [lra|]. unfold Rdiv. rewrite Rmult_assoc, Rinv_l by lra. lra.
    + apply (Rmult_le_reg_r 360); [lra|]. unfold Rdiv.
      rewrite Rmult_plus_distr_r, Rmult_assoc, Rinv_l by lra. lra.
Qed.

Lemma wrap360_up : forall d, -540 <= d < -180 -> wrap360 d = d + 360.
Proof.
  intros d Hd. unfold wrap360, fmod.
  replace (Int_part ((d + 360 - 180) / 360)) with (-1)%Z.
  - cbn. lra.
  - unfold Int_part. assert (0%Z = up ((d + 360 - 180) / 360)) as <-; [|reflexivity].
    apply tech_up; cbn.
    + apply (Rmult_lt_reg_r 360); [lra|]. unfold Rdiv. rewrite Rmult_assoc, Rinv_l by lra. lra.
    + apply (Rmult_le_reg_r 360); [lra|]. unfold Rdiv.
      rewrite Rmult_plus_distr_r, Rmult_assoc, Rinv_l by lra. lra.
Qed.

(* ------------------------------------------------------------------ *)
(* further consequences                                                 *)
(* ------------------------------------------------------------------ *)
(* premises reduced to m0 > 0 and a positive first in-band frequency *)
Lemma moments_pos_of_m0 : forall fmin fmax f e fa l,
  StronglySorted Rlt f -> nonneg_spec e ->
  map fst (band_pts fmin fmax f e) = fa :: l -> 0 < fa ->
  0 < m0 fmin fmax f e ->
  0 < m1 fmin fmax f e /\ 0 < m2 fmin fmax f e.
Proof.
  intros fmin fmax f e fa l Hs Hn Hb Hfa H0.
  pose proof (cs_terms_nonneg fmin fmax f e Hs Hn) as Hw.
  pose proof (band_sorted fmin fmax f e Hs) as Hbs. rewrite Hb in Hbs.
  assert (Hrange : forall t, In t (cs_terms (band_pts fmin fmax f e)) -> fa <= snd t).
  { intros t Ht. apply cs_terms_freq in Ht. rewrite Hb in Ht.
    apply (sorted_bounds l fa (snd t) Hbs Ht). }
  split.
  - assert (L : fa * m0 fmin fmax f e <= m1 fmin fmax f e).
    { rewrite m0_S0, m1_S1. apply S1_lower; assumption. }
    assert (0 < fa * m0 fmin fmax f e) by (apply Rmult_lt_0_compat; assumption). lra.
  - assert (L : fa * fa * m0 fmin fmax f e <= m2 fmin fmax f e).
    { rewrite m0_S0, m2_S2. apply S2_lower; [assumption | lra | assumption]. }
    assert (0 < fa * fa * m0 fmin fmax f e).
    { apply Rmult_lt_0_compat; [apply Rmult_lt_0_compat|]; assumption. }
    lra.
Qed.

Lemma periods_bounded_m0 : forall fmin fmax f e fa l,
  StronglySorted Rlt f -> nonneg_spec e ->
  map fst (band_pts fmin fmax f e) = fa :: l -> 0 < fa ->
  0 < m0 fmin fmax f e ->
  let fb := last (fa :: l) 0 in
  exists t1 t2, tm01 fmin fmax f e = Some t1 /\ tm02 fmin fmax f e = Some t2 /\
                1 / fb <= t2 /\ t2 <= t1 /\ t1 <= 1 / fa.
Proof.
  intros fmin fmax f e fa l Hs Hn Hb Hfa H0.
  destruct (moments_pos_of_m0 fmin fmax f e fa l Hs Hn Hb Hfa H0) as [H1 H2].
  apply periods_bounded; assumption.
Qed.

Lemma hm0_defined : forall fmin fmax f e,
  StronglySorted Rlt f -> nonneg_spec e ->
  hm0 fmin fmax f e = Some (4 * sqrt (m0 fmin fmax f e)).
Proof.
  intros fmin fmax f e Hs Hn. unfold hm0.
  pose proof (m0_nonneg fmin fmax f e Hs Hn).
  destruct (Rlt_dec (m0 fmin fmax f e) 0); [lra | reflexivity].
Qed.

(* endpoint-weight form with its sign *)
Lemma moment_endpoint_weights : forall n fmin fmax f e,
  let l := band_pts fmin fmax f e in
  moment n fmin fmax f e
  = sumR (map (fun wa => fst wa * (fill0 (snd (snd wa)) * fst (snd wa) ^ n))
              (combine (weights (map fst l)) l))
  /\ (StronglySorted Rlt f -> Forall (fun w => 0 <= w) (weights (map fst l))).
Proof.
  intros n fmin fmax f e l. split.
  - unfold moment. rewrite trapz_weights. unfold wsum, weights. apply sumR_map_ext.
    intros [w p] _. cbn [fst snd]. rewrite integrand_eq. reflexivity.
  - intros Hs. apply weights_nonneg. apply band_sorted. assumption.
Qed.

Lemma dint_add : forall r r' d, same_mask r r' ->
  dint (add_spec r r') d = dint r d + dint r' d.
Proof.
  intros r r' d H. revert d. unfold dint, add_spec.
  induction H as [|a b r r' Hab Hr IH]; intros d; [cbn; lra|].
  destruct d as [|x d]; [cbn; lra|].
  cbn [combine map sumR fst snd]. rewrite IH.
  destruct a as [va|], b as [vb|]; cbn; try lra.
  - destruct Hab as [_ Hab]. discriminate (Hab eq_refl).
  - destruct Hab as [Hab _]. discriminate (Hab eq_refl).
Qed.

Definition add_spec2d (E E' : list (list (option R))) : list (list (option R)) :=
  map (fun p => add_spec (fst p) (snd p)) (combine E E').

Lemma e2d_add : forall th E E', Forall2 same_mask E E' ->
  e2d th (add_spec2d E E') = add_spec (e2d th E) (e2d th E').
Proof.
  intros th E E' H. unfold e2d, add_spec2d.
  induction H as [|r r' E E' Hr H IH]; [reflexivity|].
  cbn [combine map fst snd]. rewrite IH, dint_add by assumption.
  reflexivity.
Qed.

Lemma e2d_same_mask : forall th E E', length E = length E' -> same_mask (e2d th E) (e2d th E').
Proof.
  intros th. unfold same_mask, e2d. induction E as [|r E IH]; intros [|r' E'] Hl; cbn in *; try lia; constructor.
  - split; discriminate.
  - apply IH. lia.
Qed.

Lemma Forall2_len : forall (A B : Type) (Rel : A -> B -> Prop) l l', Forall2 Rel l l' -> length l = length l'.
Proof. induction 1; cbn; congruence. Qed.

Lemma moment2d_add : forall n fmin fmax f th E E',
  Forall2 same_mask E E' ->
  moment2d n fmin fmax f th (add_spec2d E E')
  = moment2d n fmin fmax f th E + moment2d n fmin fmax f th E'.
Proof.
  intros n fmin fmax f th E E' H. unfold moment2d. rewrite e2d_add by assumption.
  apply moment_add. apply e2d_same_mask. apply (Forall2_len _ _ _ _ _ H).
Qed.

(* ------------------------------------------------------------------ *)
(* a concrete instance meeting every premise (non-uniform grid from 0, one NaN bin) *)
(* ------------------------------------------------------------------ *)
Definition ex_f : list R := [0; 1 / 8; 1 / 4; 1 / 2; 1].
Definition ex_e : list (option R) := [Some 1; Some 2; None; Some 4; Some 1].

Lemma in_band_false : forall fmin fmax x,
  (x < fmin \/ match fmax with None => False | Some m => m <= x end) -> in_band fmin fmax x = false.
Proof.
  intros fmin fmax x H. apply Bool.not_true_is_false. rewrite in_band_true.
  intros [H1 H2]. destruct H as [H|H]; [lra|]. destruct fmax; [lra | assumption].
Qed.

Lemma ex_band : band_pts (1 / 8) None ex_f ex_e
  = [(1 / 8, Some 2); (1 / 4, None); (1 / 2, Some 4); (1, Some 1)].
Proof.
  unfold band_pts, ex_f, ex_e. cbn [combine filter fst].
  rewrite (in_band_false (1 / 8) None 0) by (left; lra).
  rewrite !(proj2 (in_band_true (1 / 8) None _)) by (split; [lra | exact I]).
  reflexivity.
Qed.

Lemma ex_sorted : StronglySorted Rlt ex_f.
Proof.
  unfold ex_f. repeat (constructor; [|repeat (constructor; try lra)]). constructor.
Qed.

Lemma ex_nonneg : nonneg_spec ex_e.
Proof.
  intros v Hv. unfold ex_e in Hv. cbn in Hv.
  repeat (destruct Hv as [Hv|Hv]; [inversion Hv; lra|]); try discriminate. contradiction.
Qed.

Lemma ex_moments :
  m0 (1 / 8) None ex_f ex_e = 15 / 8 /\ m1 (1 / 8) None ex_f ex_e = 65 / 64 /\
  m2 (1 / 8) None ex_f ex_e = 321 / 512.
Proof.
  unfold m0, m1, m2, moment. rewrite ex_band. unfold pts, integrand.
  cbn [map fst snd omul fill0 trapz pow]. repeat split; lra.
Qed.

Lemma ex_premises :
  StronglySorted Rlt ex_f /\ nonneg_spec ex_e /\
  0 < m1 (1 / 8) None ex_f ex_e /\ 0 < m2 (1 / 8) None ex_f ex_e /\
  map fst (band_pts (1 / 8) None ex_f ex_e) = [1 / 8; 1 / 4; 1 / 2; 1].
Proof.
  destruct ex_moments as [_ [E1 E2]]. rewrite E1, E2, ex_band.
  repeat split; try lra; [exact ex_sorted | exact ex_nonneg].
Qed.
