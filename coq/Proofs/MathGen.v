(* tools/math.py wrapped_difference AS REGENERATED FROM THE SOURCE on every run (coq/Generated/MathSrc.v,
   harness/translate_pointwise.py, masked-function grammar) is the [wrapdiff] of OSU.Lib.Fmod on which the
   direction steps (C02, C03), the periodic interpolation (C13, C14) and their theorems are built. *)
From Coq Require Import Reals ZArith Lra.
From OSU.Lib Require Import Fmod InterpAuxDefs InterpAux.
From OSU.Generated Require Import MathSrc.
Open Scope R_scope.

(* the two model libraries carry their own (identical) copies of the definition: the source equals both *)
Lemma src_wrapped_difference : forall d P c,
  wrapped_difference d P c = Fmod.wrapdiff d P c /\ wrapped_difference d P c = InterpAuxDefs.wrapdiff d P c.
Proof. split; reflexivity. Qed.

Lemma src_wrapped_difference_defaults :
  wrapped_difference_default_period = 2 * PI /\
  (forall P, wrapped_difference_default_discont P = P / 2) /\
  wrapped_difference_period_None_returns = 0%nat.
Proof. repeat split. Qed.

(* the call made for direction grids: wrapped_difference(delta, period=360) *)
Lemma src_wrap360 : forall d, wrapped_difference d 360 (wrapped_difference_default_discont 360) = wrap360 d.
Proof.
  intro d. unfold wrapped_difference, wrapped_difference_default_discont, wrap360, wrapdiff.
  replace (360 / 2) with 180 by lra. reflexivity.
Qed.

(* range and congruence, stated on the regenerated definition *)
Lemma src_wrapped_difference_range : forall d P disc, 0 < P ->
  disc - P <= wrapped_difference d P disc < disc /\ exists k : Z, wrapped_difference d P disc = d + IZR k * P.
Proof.
  intros d P disc HP. rewrite (proj2 (src_wrapped_difference d P disc)).
  split; [exact (wrapdiff_range d P disc HP)|exact (wrapdiff_congr d P disc)].
Qed.
