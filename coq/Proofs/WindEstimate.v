(* Proofs about Model/WindEstimate.v (C12). *)
From Coq Require Import Reals Lra Lia ZArith List Arith.
From OSU.Model Require Import WindEstimate.
From OSU.Lib Require Import WindAux.
Import ListNotations.
Open Scope R_scope.

(* ================================================================== *)
(* closed form, linearity, log law                                     *)
(* ================================================================== *)
Lemma ustar_closed_form : forall g I beta e, g <> 0 -> I <> 0 -> beta <> 0 ->
  ustar_of g I beta e = 8 * PI ^ 3 * e / (4 * g * I * beta).
Proof. intros. unfold ustar_of. field. repeat split; assumption. Qed.

Lemma ustar_scale : forall g I beta e c, ustar_of g I beta (e * c) = c * ustar_of g I beta e.
Proof. intros. unfold ustar_of, Rdiv. ring. Qed.

Lemma ustar_add : forall g I beta e1 e2,
  ustar_of g I beta (e1 + e2) = ustar_of g I beta e1 + ustar_of g I beta e2.
Proof. intros. unfold ustar_of, Rdiv. ring. Qed.

(* the friction velocity returned by the estimate IS the closed form of the equilibrium level *)
Lemma estimate_ustar_closed_form : forall m cf P fs es a1s b1s e a1 b1,
  eq_values m P fs es a1s b1s = Some (Some e, a1, b1) ->
  p_grav P <> 0 -> p_I P <> 0 -> p_beta P <> 0 ->
  exists d u10, estimate1d m cf P fs es a1s b1s =
    Some (Some (8 * PI ^ 3 * e / (4 * p_grav P * p_I P * p_beta P)), d, u10).
Proof.
  intros m cf P fs es a1s b1s e a1 b1 H Hg HI Hb.
  unfold estimate1d. rewrite H. cbn [option_map finish].
  rewrite ustar_closed_form by assumption. eauto.
Qed.

Lemma estimate_nan_level : forall m cf P fs es a1s b1s a1 b1,
  eq_values m P fs es a1s b1s = Some (None, a1, b1) ->
  exists d, estimate1d m cf P fs es a1s b1s = Some (None, d, None).
Proof.
  intros. unfold estimate1d. rewrite H. cbn [option_map finish obind]. eauto.
Qed.

(* log law with the Charnock roughness of that friction velocity *)
Lemma estimate_u10_loglaw : forall m cf P fs es a1s b1s e a1 b1,
  eq_values m P fs es a1s b1s = Some (Some e, a1, b1) ->
  let u := ustar_of (p_grav P) (p_I P) (p_beta P) e in
  let z0 := charnock_z0 (p_alpha P) (p_gc P) (p_visc P) (p_nu P) u in
  0 < z0 ->
  exists d, estimate1d m cf P fs es a1s b1s = Some (Some u, d, Some (u / p_kappa P * ln (10 / z0))).
Proof.
  intros m cf P fs es a1s b1s e a1 b1 H u z0 Hz.
  unfold estimate1d. rewrite H. cbn [option_map finish obind]. fold u. fold z0.
  unfold u10_of. destruct (Rlt_dec 0 z0); [|contradiction]. eauto.
Qed.

Lemma charnock_no_viscosity : forall alpha gc nu u,
  charnock_z0 alpha gc 0 nu u = alpha * u ^ 2 / gc.
Proof. intros. unfold charnock_z0. destruct (Rlt_dec 0 u); unfold Rdiv; ring. Qed.

Lemma charnock_pos : forall alpha gc visc nu u, 0 < alpha -> 0 < gc -> 0 <= visc -> 0 <= nu -> 0 < u ->
  0 < charnock_z0 alpha gc visc nu u.
Proof.
  intros. unfold charnock_z0. destruct (Rlt_dec 0 u); [|contradiction].
  assert (0 < alpha * (u * u) / gc).
  { apply Rdiv_lt_0_compat; [|assumption]. apply Rmult_lt_0_compat; [assumption|].
    apply Rmult_lt_0_compat; assumption. }
  assert (0 <= visc * nu / u).
  { unfold Rdiv. apply Rmult_le_pos; [apply Rmult_le_pos; assumption|].
    left. apply Rinv_0_lt_compat. assumption. }
  lra.
Qed.

(* ================================================================== *)
(* direction                                                           *)
(* ================================================================== *)
Lemma dir_in_0_360 : forall a1 b1, 0 <= dir_of a1 b1 < 360.
Proof. intros. unfold dir_of. apply fmod_range. lra. Qed.

Lemma convention_in_0_360 : forall d, 0 <= convention d < 360.
Proof. intros. unfold convention. apply fmod_range. lra. Qed.

(* the direction is the argument of (a1, b1): its unit vector is (a1, b1)/|(a1, b1)| *)
Lemma dir_is_atan2 : forall a1 b1, (a1 <> 0 \/ b1 <> 0) ->
  let r := sqrt (a1 * a1 + b1 * b1) in
  a1 = r * cos (rad (dir_of a1 b1)) /\ b1 = r * sin (rad (dir_of a1 b1)).
Proof.
  intros a1 b1 H r. unfold dir_of.
  rewrite cos_rad_fmod360, sin_rad_fmod360, rad_deg.
  apply atan2_spec. exact H.
Qed.

(* coming-from, clockwise-from-north bearing of (270 - d) mod 360:  (east, north) = (sin, cos) of the
   bearing; it is the opposite of the going-to vector (cos d, sin d) *)
Lemma convention_correct : forall d,
  sin (rad (convention d)) = - cos (rad d) /\ cos (rad (convention d)) = - sin (rad d).
Proof.
  intros d. unfold convention. rewrite cos_rad_fmod360, sin_rad_fmod360.
  replace (rad (270 - d)) with (3 * (PI / 2) - rad d) by (unfold rad; field).
  rewrite sin_minus, cos_minus, sin_3PI2, cos_3PI2. split; ring.
Qed.

(* applying the convention twice with the same rule returns the angle modulo 360 *)
Lemma estimate_convention : forall m P fs es a1s b1s r,
  estimate1d m false P fs es a1s b1s = Some r ->
  estimate1d m true P fs es a1s b1s =
    Some (fst (fst r), option_map convention (snd (fst r)), snd r).
Proof.
  intros m P fs es a1s b1s r. unfold estimate1d.
  destruct (eq_values m P fs es a1s b1s) as [[[e a1] b1]|]; cbn [option_map]; [|discriminate].
  intros H. inversion H. reflexivity.
Qed.

(* ================================================================== *)
(* peak method                                                         *)
(* ================================================================== *)
Lemma nth_S_cons : forall (A : Type) (a : A) l d j, nth (S j) (a :: l) d = nth j l d.
Proof. reflexivity. Qed.

Lemma argmax_spec : forall l, l <> [] ->
  (argmax l < length l)%nat
  /\ (forall x, In x l -> x <= nth (argmax l) l 0)
  /\ (forall j, (j < argmax l)%nat -> nth j l 0 < nth (argmax l) l 0).
Proof.
  induction l as [|x t IH]; [congruence|]. intros _.
  destruct t as [|y t'].
  - cbn. repeat split; try lia. intros z [->|[]]. lra.
  - assert (Hne : y :: t' <> []) by congruence.
    destruct (IH Hne) as (Hlt & Hmax & Hfirst).
    change (argmax (x :: y :: t')) with
      (let j := argmax (y :: t') in if Rlt_dec x (nth j (y :: t') 0) then S j else O).
    cbv zeta. set (j := argmax (y :: t')) in *.
    destruct (Rlt_dec x (nth j (y :: t') 0)) as [Hx | Hx].
    + repeat split.
      * cbn [length] in *. lia.
      * intros z [->|Hz]; rewrite nth_S_cons; [lra| apply Hmax; exact Hz].
      * intros k Hk. rewrite nth_S_cons. destruct k as [|k]; [exact Hx|]. rewrite nth_S_cons. apply Hfirst. lia.
    + repeat split.
      * cbn [length]. lia.
      * intros z [->|Hz]; change (nth 0 (?a :: _) 0) with a; [lra|]. specialize (Hmax z Hz).
        change (nth 0 (x :: y :: t') 0) with x. lra.
      * intros k Hk. lia.
Qed.

Lemma nth_map_scale : forall c l j, nth j (map (fun x => x * c) l) 0 = nth j l 0 * c.
Proof.
  intros. transitivity (nth j (map (fun x => x * c) l) ((fun x => x * c) 0)).
  - f_equal. cbv beta. ring.
  - apply (map_nth (fun x => x * c)).
Qed.

Lemma argmax_scale : forall c l, 0 < c -> argmax (map (fun x => x * c) l) = argmax l.
Proof.
  intros c l Hc. induction l as [|x t IH]; [reflexivity|].
  destruct t as [|y t']; [reflexivity|].
  change (argmax (map (fun x => x * c) (x :: y :: t'))) with
    (let j := argmax (map (fun x => x * c) (y :: t')) in
     if Rlt_dec (x * c) (nth j (map (fun x => x * c) (y :: t')) 0) then S j else O).
  change (argmax (x :: y :: t')) with
    (let j := argmax (y :: t') in if Rlt_dec x (nth j (y :: t') 0) then S j else O).
  cbv zeta. rewrite IH. rewrite nth_map_scale.
  destruct (Rlt_dec x (nth (argmax (y :: t')) (y :: t') 0)) as [H|H];
  destruct (Rlt_dec (x * c) (nth (argmax (y :: t')) (y :: t') 0 * c)) as [H'|H']; try reflexivity.
  - exfalso. apply H'. apply Rmult_lt_compat_r; assumption.
  - exfalso. apply H. apply Rmult_lt_reg_r with c; assumption.
Qed.

Lemma scaled_length : forall p fs es, length es = length fs -> length (scaled p fs es) = length fs.
Proof.
  intros p fs. induction fs as [|f fs IH]; intros [|e es] H; cbn in *; try lia. f_equal. apply IH. lia.
Qed.

Lemma scaled_nth : forall p fs es i, (i < length fs)%nat -> (i < length es)%nat ->
  nth i (scaled p fs es) None = omul (nth i es None) (powr (nth i fs 0) p).
Proof.
  intros p fs. induction fs as [|f fs IH]; intros [|e es] i H1 H2; cbn in *; try lia.
  destruct i; [reflexivity|]. apply IH; lia.
Qed.

(* E_eq of the peak method is the maximum of fillna0(E f^p), attained at the returned index *)
Lemma eq_peak_is_max : forall p fs es a1s b1s, scaled p fs es <> [] ->
  let sc := map fill0 (scaled p fs es) in
  exists i, (i < length sc)%nat /\
    eq_peak p fs es a1s b1s = (Some (nth i sc 0), onth a1s i, onth b1s i) /\
    (forall x, In x sc -> x <= nth i sc 0) /\
    (forall j, (j < i)%nat -> nth j sc 0 < nth i sc 0).
Proof.
  intros p fs es a1s b1s Hne sc.
  assert (Hsc : sc <> []).
  { unfold sc. destruct (scaled p fs es); [congruence|]. cbn. congruence. }
  destruct (argmax_spec sc Hsc) as (H1 & H2 & H3).
  exists (argmax sc). repeat split; assumption.
Qed.

(* a spectrum with E f^p = c at some bin and E f^p <= c everywhere has E_eq = c *)
Lemma peak_level : forall p fs es a1s b1s c,
  let sc := map fill0 (scaled p fs es) in
  In c sc -> (forall x, In x sc -> x <= c) ->
  fst (fst (eq_peak p fs es a1s b1s)) = Some c.
Proof.
  intros p fs es a1s b1s c sc Hin Hle.
  unfold eq_peak. cbn [fst]. fold sc. f_equal.
  assert (Hsc : sc <> []) by (destruct sc; [destruct Hin|congruence]).
  destruct (argmax_spec sc Hsc) as (H1 & H2 & _).
  apply Rle_antisym.
  - apply Hle. apply nth_In. exact H1.
  - apply H2. exact Hin.
Qed.

Lemma peak_f4_level : forall p fs es a1s b1s c i,
  length es = length fs -> (i < length fs)%nat ->
  powr (nth i fs 0) p <> 0 ->
  nth i es None = Some (c / powr (nth i fs 0) p) ->
  (forall j, (j < length fs)%nat -> fill0 (omul (nth j es None) (powr (nth j fs 0) p)) <= c) ->
  fst (fst (eq_peak p fs es a1s b1s)) = Some c.
Proof.
  intros p fs es a1s b1s c i Hlen Hi Hp Hc Hle.
  apply peak_level.
  - apply in_map_iff. exists (nth i (scaled p fs es) None). split.
    + rewrite scaled_nth by lia. rewrite Hc. cbn. field. exact Hp.
    + apply nth_In. rewrite scaled_length; assumption.
  - intros x Hx. apply in_map_iff in Hx. destruct Hx as (o & <- & Ho).
    apply In_nth with (d := None) in Ho. destruct Ho as (j & Hj & <-).
    rewrite scaled_length in Hj by assumption.
    rewrite scaled_nth by lia. apply Hle. exact Hj.
Qed.

(* ================================================================== *)
(* scaling the spectrum                                                *)
(* ================================================================== *)
Definition oscale (c : R) (o : option R) : option R := omul o c.

Lemma scaled_oscale : forall p c fs es,
  scaled p fs (map (oscale c) es) = map (oscale c) (scaled p fs es).
Proof.
  intros p c fs. induction fs as [|f fs IH]; intros [|e es]; cbn; try reflexivity.
  rewrite IH. f_equal. destruct e; cbn; [f_equal; ring|reflexivity].
Qed.

Lemma fill0_oscale : forall c o, fill0 (oscale c o) = fill0 o * c.
Proof. intros c [x|]; cbn; ring. Qed.

Lemma eq_peak_scale : forall p fs es a1s b1s c, 0 < c ->
  eq_peak p fs (map (oscale c) es) a1s b1s =
  let '(e, a1, b1) := eq_peak p fs es a1s b1s in (oscale c e, a1, b1).
Proof.
  intros p fs es a1s b1s c Hc. unfold eq_peak.
  rewrite scaled_oscale, map_map.
  rewrite (map_ext (fun x => fill0 (oscale c x)) (fun x => fill0 x * c)) by (intro; apply fill0_oscale).
  rewrite <- (map_map fill0 (fun x => x * c)).
  rewrite argmax_scale by exact Hc.
  rewrite nth_map_scale. reflexivity.
Qed.

(* --- mean method --- *)
Lemma present_oscale : forall c l, present (map (oscale c) l) = map (fun x => x * c) (present l).
Proof.
  intros c l. induction l as [|[x|] t IH]; cbn; [reflexivity| |exact IH]. f_equal. exact IH.
Qed.

Lemma sumR_scale : forall c l, sumR (map (fun x => x * c) l) = sumR l * c.
Proof. intros c l. induction l; cbn; [ring|]. rewrite IHl. ring. Qed.

Lemma meanR_scale : forall c l, meanR (map (fun x => x * c) l) = meanR l * c.
Proof. intros. unfold meanR. rewrite sumR_scale, map_length. unfold Rdiv. ring. Qed.

Lemma dev_scale : forall c l,
  let m := meanR l in let m' := meanR (map (fun x => x * c) l) in
  map (fun x => (x - m') * (x - m')) (map (fun x => x * c) l)
  = map (fun x => x * (c * c)) (map (fun x => (x - m) * (x - m)) l).
Proof.
  intros c l m m'. unfold m'. rewrite meanR_scale. fold m. rewrite !map_map.
  apply map_ext. intro. ring.
Qed.

Definition wv_body (xs : list R) : V :=
  let m := meanR xs in
  let s := meanR (map (fun x => (x - m) * (x - m)) xs) in
  if Req_EM_T m 0 then (if Req_EM_T s 0 then VNaN else VInf) else VFin (s / (m * m)).

Lemma window_var_eq : forall w,
  window_var w = match present w with [] => VNaN | _ => wv_body (present w) end.
Proof. intros. unfold window_var. destruct (present w); reflexivity. Qed.

Lemma wv_body_scale : forall c l, c <> 0 -> wv_body (map (fun x => x * c) l) = wv_body l.
Proof.
  intros c l Hc. unfold wv_body.
  rewrite (dev_scale c l). rewrite !meanR_scale.
  set (m := meanR l). set (s := meanR (map (fun x => (x - m) * (x - m)) l)).
  assert (Hcc : c * c <> 0) by (apply Rmult_integral_contrapositive; split; assumption).
  destruct (Req_EM_T m 0) as [Hm0|Hm0]; destruct (Req_EM_T (m * c) 0) as [Hmc|Hmc].
  - destruct (Req_EM_T s 0) as [Hs0|Hs0]; destruct (Req_EM_T (s * (c * c)) 0) as [Hsc|Hsc]; try reflexivity.
    + exfalso. apply Hsc. rewrite Hs0. ring.
    + exfalso. apply Rmult_integral in Hsc. destruct Hsc; contradiction.
  - exfalso. apply Hmc. rewrite Hm0. ring.
  - exfalso. apply Rmult_integral in Hmc. destruct Hmc; contradiction.
  - f_equal. field. split; assumption.
Qed.

Lemma window_var_scale : forall c w, c <> 0 -> window_var (map (oscale c) w) = window_var w.
Proof.
  intros c w Hc. rewrite !window_var_eq, present_oscale.
  destruct (present w) as [|a xs] eqn:E; [reflexivity|].
  change (map (fun x => x * c) (a :: xs)) with ((a * c) :: map (fun x => x * c) xs) at 1.
  cbv iota. apply wv_body_scale. exact Hc.
Qed.

Lemma window_oscale : forall c nb sc i,
  window nb (map (oscale c) sc) i = map (oscale c) (window nb sc i).
Proof. intros. unfold window. rewrite skipn_map, firstn_map. reflexivity. Qed.

Lemma variances_scale : forall c nb sc imin imax, c <> 0 ->
  variances nb (map (oscale c) sc) imin imax = variances nb sc imin imax.
Proof.
  intros. unfold variances. apply map_ext. intro i.
  rewrite window_oscale. apply window_var_scale. assumption.
Qed.

Lemma onth_oscale : forall c l i, onth (map (oscale c) l) i = oscale c (onth l i).
Proof.
  intros. unfold onth. change None with (oscale c None) at 1. apply map_nth.
Qed.

Lemma osum_oscale : forall c l, osum (map (oscale c) l) = oscale c (osum l).
Proof.
  intros c l. induction l as [|o t IH]; cbn.
  - f_equal. ring.
  - change (fold_right oadd (Some 0) (map (oscale c) t)) with (osum (map (oscale c) t)).
    rewrite IH. change (fold_right oadd (Some 0) t) with (osum t).
    destruct o, (osum t); cbn; try reflexivity. f_equal. ring.
Qed.

Lemma avg_clipped_oscale : forall c nf nb k l,
  avg_clipped nf nb k (map (oscale c) l) = oscale c (avg_clipped nf nb k l).
Proof.
  intros. unfold avg_clipped.
  rewrite (map_ext (fun ii => onth (map (oscale c) l) (clipidx nf nb k ii))
                   (fun ii => oscale c (onth l (clipidx nf nb k ii)))) by (intro; apply onth_oscale).
  rewrite <- (map_map (fun ii => onth l (clipidx nf nb k ii)) (oscale c)).
  rewrite osum_oscale. destruct (osum _); cbn; [f_equal; ring|reflexivity].
Qed.

Lemma eq_mean_scale : forall p fmax nb fs es a1s b1s c, c <> 0 ->
  eq_mean p fmax nb fs (map (oscale c) es) a1s b1s =
  option_map (fun r : option R * option R * option R => let '(e, a1, b1) := r in (oscale c e, a1, b1))
             (eq_mean p fmax nb fs es a1s b1s).
Proof.
  intros. unfold eq_mean. rewrite scaled_oscale.
  destruct (Nat.leb (i_max_of fs fmax nb) (i_min_of fs)); [reflexivity|].
  cbn [option_map]. rewrite variances_scale by assumption. rewrite avg_clipped_oscale. reflexivity.
Qed.

(* scaling the spectrum by c > 0 scales the equilibrium level and the friction velocity by c and
   leaves the direction alone *)
Lemma eq_values_scale : forall m P fs es a1s b1s c, 0 < c ->
  eq_values m P fs (map (oscale c) es) a1s b1s =
  option_map (fun r : option R * option R * option R => let '(e, a1, b1) := r in (oscale c e, a1, b1))
             (eq_values m P fs es a1s b1s).
Proof.
  intros m P fs es a1s b1s c Hc. destruct m; cbn [eq_values].
  - rewrite eq_peak_scale by assumption. cbn [option_map].
    destruct (eq_peak _ fs es a1s b1s) as [[e a1] b1]. reflexivity.
  - apply eq_mean_scale. lra.
Qed.

Lemma ustar_linear_in_E : forall m cf P fs es a1s b1s c, 0 < c ->
  option_map (fun r : option R * option R * option R => (fst (fst r), snd (fst r)))
    (estimate1d m cf P fs (map (oscale c) es) a1s b1s)
  = option_map (fun r : option R * option R * option R =>
                  (option_map (Rmult c) (fst (fst r)), snd (fst r)))
    (estimate1d m cf P fs es a1s b1s).
Proof.
  intros m cf P fs es a1s b1s c Hc. unfold estimate1d.
  rewrite eq_values_scale by assumption.
  destruct (eq_values m P fs es a1s b1s) as [[[e a1] b1]|]; cbn [option_map]; [|reflexivity].
  unfold finish. cbn [fst snd]. f_equal. f_equal.
  destruct e; cbn; [|reflexivity]. f_equal. apply ustar_scale.
Qed.

(* ================================================================== *)
(* batches                                                             *)
(* ================================================================== *)
Lemma estimate_batch_independent : forall m cf P fs b i d,
  (i < length b)%nat ->
  nth i (estimate_batch m cf P fs b) d =
  (let '(es, a1s, b1s) := nth i b ([], [], []) in estimate1d m cf P fs es a1s b1s).
Proof.
  intros. unfold estimate_batch.
  set (F := fun s : spec1d => let '(es, a1s, b1s) := s in estimate1d m cf P fs es a1s b1s).
  rewrite nth_indep with (d' := F ([], [], [])) by (rewrite map_length; assumption).
  apply (map_nth F).
Qed.

(* ================================================================== *)
(* mean method: a spectrum with a c f^-p range has E_eq = c             *)
(* ================================================================== *)
Lemma present_Some : forall l, present (map Some l) = l.
Proof. induction l; cbn; [reflexivity|]. f_equal. assumption. Qed.

Lemma window_Some : forall nb xs i,
  window nb (map Some xs) i = map Some (firstn nb (skipn i xs)).
Proof. intros. unfold window. rewrite skipn_map, firstn_map. reflexivity. Qed.

Definition relvar (w : list R) : R :=
  meanR (map (fun x => (x - meanR w) * (x - meanR w)) w) / (meanR w * meanR w).

Lemma sumR_pos : forall l, l <> [] -> (forall x, In x l -> 0 < x) -> 0 < sumR l.
Proof.
  induction l as [|a t IH]; [congruence|]. intros _ H. cbn.
  assert (0 < a) by (apply H; left; reflexivity).
  destruct t as [|b t']; [cbn; lra|].
  assert (0 < sumR (b :: t')) by (apply IH; [congruence|]; intros; apply H; right; assumption).
  lra.
Qed.

Lemma sumR_nonneg : forall l, (forall x, In x l -> 0 <= x) -> 0 <= sumR l.
Proof.
  induction l as [|a t IH]; intros H; cbn; [lra|].
  assert (0 <= a) by (apply H; left; reflexivity).
  assert (0 <= sumR t) by (apply IH; intros; apply H; right; assumption). lra.
Qed.

Lemma sumR_zero_all : forall l, (forall x, In x l -> 0 <= x) -> sumR l = 0 -> forall x, In x l -> x = 0.
Proof.
  induction l as [|a t IH]; intros H Hs x Hx; [destruct Hx|].
  cbn in Hs.
  assert (0 <= a) by (apply H; left; reflexivity).
  assert (0 <= sumR t) by (apply sumR_nonneg; intros; apply H; right; assumption).
  destruct Hx as [<-|Hx]; [lra|]. apply IH; try assumption; [|lra].
  intros; apply H; right; assumption.
Qed.

Lemma INR_len_pos : forall (l : list R), l <> [] -> 0 < INR (length l).
Proof. intros [|a t] H; [congruence|]. apply lt_0_INR. cbn. lia. Qed.

Lemma meanR_pos : forall l, l <> [] -> (forall x, In x l -> 0 < x) -> 0 < meanR l.
Proof.
  intros. unfold meanR. apply Rdiv_lt_0_compat; [apply sumR_pos; assumption|apply INR_len_pos; assumption].
Qed.

Lemma sqdev_nonneg : forall m l x, In x (map (fun x => (x - m) * (x - m)) l) -> 0 <= x.
Proof.
  intros m l x H. apply in_map_iff in H. destruct H as (y & <- & _).
  replace ((y - m) * (y - m)) with (Rsqr (y - m)) by reflexivity. apply Rle_0_sqr.
Qed.

Lemma relvar_nonneg : forall w, w <> [] -> (forall x, In x w -> 0 < x) -> 0 <= relvar w.
Proof.
  intros w Hne Hpos. unfold relvar.
  pose proof (meanR_pos w Hne Hpos) as Hm.
  apply Rmult_le_pos.
  - unfold meanR. apply Rmult_le_pos.
    + apply sumR_nonneg. apply sqdev_nonneg.
    + left. apply Rinv_0_lt_compat. rewrite map_length. apply INR_len_pos. assumption.
  - left. apply Rinv_0_lt_compat. apply Rmult_lt_0_compat; assumption.
Qed.

Lemma window_var_pos : forall w, w <> [] -> (forall x, In x w -> 0 < x) ->
  window_var (map Some w) = VFin (relvar w).
Proof.
  intros w Hne Hpos. rewrite window_var_eq, present_Some.
  destruct w as [|a t]; [congruence|]. unfold wv_body.
  pose proof (meanR_pos (a :: t) Hne Hpos) as Hm.
  destruct (Req_EM_T (meanR (a :: t)) 0); [lra|]. reflexivity.
Qed.

(* relative variance zero <-> the window is constant *)
Lemma relvar_zero_const : forall w, w <> [] -> (forall x, In x w -> 0 < x) -> relvar w = 0 ->
  forall x, In x w -> x = meanR w.
Proof.
  intros w Hne Hpos H0 x Hx.
  pose proof (meanR_pos w Hne Hpos) as Hm.
  unfold relvar in H0.
  assert (Hs : sumR (map (fun x => (x - meanR w) * (x - meanR w)) w) = 0).
  { unfold meanR at 1 in H0. rewrite map_length in H0.
    pose proof (INR_len_pos w Hne) as Hn.
    assert (Hmm : meanR w * meanR w <> 0) by (apply Rmult_integral_contrapositive; split; lra).
    apply Rmult_eq_compat_r with (r := meanR w * meanR w) in H0.
    unfold Rdiv in H0. rewrite Rmult_assoc, Rinv_l, Rmult_1_r, Rmult_0_l in H0 by exact Hmm.
    apply Rmult_eq_compat_r with (r := INR (length w)) in H0.
    rewrite Rmult_assoc, Rinv_l, Rmult_1_r, Rmult_0_l in H0 by lra. exact H0. }
  assert (Hz : (x - meanR w) * (x - meanR w) = 0).
  { apply (sumR_zero_all _ (sqdev_nonneg (meanR w) w) Hs).
    apply in_map_iff. exists x. split; [reflexivity|assumption]. }
  apply Rmult_integral in Hz. destruct Hz; lra.
Qed.

Lemma sumR_const : forall c l, (forall x, In x l -> x = c) -> sumR l = INR (length l) * c.
Proof.
  intros c l. induction l as [|a t IH]; intros H.
  - cbn. ring.
  - change (sumR (a :: t)) with (a + sumR t). rewrite IH by (intros; apply H; right; assumption).
    rewrite (H a) by (left; reflexivity).
    cbn [length]. rewrite S_INR. ring.
Qed.

Lemma relvar_const : forall c w, w <> [] -> c <> 0 -> (forall x, In x w -> x = c) -> relvar w = 0.
Proof.
  intros c w Hne Hc H.
  assert (Hm : meanR w = c).
  { unfold meanR. rewrite (sumR_const c w H). field. apply Rgt_not_eq. apply INR_len_pos. assumption. }
  unfold relvar. rewrite Hm.
  assert (Hs : sumR (map (fun x => (x - c) * (x - c)) w) = 0).
  { rewrite (sumR_const 0); [ring|]. intros y Hy. apply in_map_iff in Hy. destruct Hy as (z & <- & Hz).
    rewrite (H z Hz). ring. }
  unfold meanR. rewrite Hs. unfold Rdiv. ring.
Qed.

(* --- argmin --- *)
Lemma argminR_spec : forall l, l <> [] ->
  (argminR l < length l)%nat /\ (forall x, In x l -> nth (argminR l) l 0 <= x).
Proof.
  induction l as [|x t IH]; [congruence|]. intros _.
  destruct t as [|y t'].
  - cbn. split; [lia|]. intros z [->|[]]. lra.
  - assert (Hne : y :: t' <> []) by congruence.
    destruct (IH Hne) as (Hlt & Hmin).
    change (argminR (x :: y :: t')) with
      (let j := argminR (y :: t') in if Rlt_dec (nth j (y :: t') 0) x then S j else O).
    cbv zeta. set (j := argminR (y :: t')) in *.
    destruct (Rlt_dec (nth j (y :: t') 0) x) as [Hx | Hx].
    + split; [cbn [length] in *; lia|].
      intros z [->|Hz]; rewrite nth_S_cons; [lra|apply Hmin; exact Hz].
    + split; [cbn [length]; lia|].
      intros z Hz. change (nth 0 (x :: y :: t') 0) with x. destruct Hz as [<-|Hz]; [lra|].
      specialize (Hmin z Hz). lra.
Qed.

Lemma nth_map_VFin : forall l j, (j < length l)%nat -> nth j (map VFin l) VNaN = VFin (nth j l 0).
Proof.
  intros l j H. rewrite nth_indep with (d' := VFin 0) by (rewrite map_length; exact H).
  apply (map_nth VFin).
Qed.

Lemma argminV_fin : forall l, argminV (map VFin l) = argminR l.
Proof.
  induction l as [|x t IH]; [reflexivity|].
  destruct t as [|y t']; [reflexivity|].
  change (argminV (map VFin (x :: y :: t'))) with
    (let j := argminV (map VFin (y :: t')) in
     let b := nth j (map VFin (y :: t')) VNaN in
     if visnan (VFin x) then O else if visnan b then S j else if vlt b (VFin x) then S j else O).
  change (argminR (x :: y :: t')) with
    (let j := argminR (y :: t') in if Rlt_dec (nth j (y :: t') 0) x then S j else O).
  cbv zeta. rewrite IH.
  assert (Hlt : (argminR (y :: t') < length (y :: t'))%nat) by (apply argminR_spec; congruence).
  rewrite nth_map_VFin by exact Hlt.
  cbn [visnan vlt]. destruct (Rlt_dec (nth (argminR (y :: t')) (y :: t') 0) x); reflexivity.
Qed.

(* --- windows of a list --- *)
Lemma nth_firstn_lt : forall (A : Type) n (l : list A) i d, (i < n)%nat -> nth i (firstn n l) d = nth i l d.
Proof.
  intros A n. induction n as [|n IH]; intros l i d H; [lia|].
  destruct l as [|a t]; [reflexivity|]. destruct i as [|i]; [reflexivity|]. cbn. apply IH. lia.
Qed.

Lemma nth_skipn_add : forall (A : Type) k (l : list A) i d, nth i (skipn k l) d = nth (k + i) l d.
Proof.
  intros A k. induction k as [|k IH]; intros l i d; [reflexivity|].
  destruct l as [|a t]; [destruct i; reflexivity|]. cbn. apply IH.
Qed.

Lemma In_skipn_in : forall (A : Type) k (l : list A) x, In x (skipn k l) -> In x l.
Proof.
  intros A k. induction k as [|k IH]; intros l x H; [exact H|].
  destruct l as [|a t]; [destruct H|]. right. apply IH. exact H.
Qed.

Lemma In_firstn_in : forall (A : Type) n (l : list A) x, In x (firstn n l) -> In x l.
Proof.
  intros A n. induction n as [|n IH]; intros l x H; [destruct H|].
  destruct l as [|a t]; [destruct H|]. destruct H as [<-|H]; [left; reflexivity|right; apply IH; exact H].
Qed.

Lemma window_nth : forall nb (xs : list R) k ii, (ii < nb)%nat -> (k + nb <= length xs)%nat ->
  nth ii (firstn nb (skipn k xs)) 0 = nth (k + ii) xs 0.
Proof.
  intros nb xs k ii Hii Hlen.
  rewrite nth_firstn_lt by exact Hii. apply nth_skipn_add.
Qed.

Lemma window_length : forall nb (xs : list R) k, (k + nb <= length xs)%nat ->
  length (firstn nb (skipn k xs)) = nb.
Proof. intros. rewrite firstn_length, skipn_length. lia. Qed.

Lemma window_in : forall nb (xs : list R) k x, (k + nb <= length xs)%nat ->
  In x (firstn nb (skipn k xs)) -> exists ii, (ii < nb)%nat /\ x = nth (k + ii) xs 0.
Proof.
  intros nb xs k x Hlen Hx. apply In_nth with (d := 0) in Hx. destruct Hx as (ii & Hii & <-).
  rewrite window_length in Hii by assumption.
  exists ii. split; [assumption|]. apply window_nth; assumption.
Qed.

Lemma osum_const : forall c n (f : nat -> option R) l, length l = n ->
  (forall i, In i l -> f i = Some c) -> osum (map f l) = Some (INR n * c).
Proof.
  intros c n f l. revert n. induction l as [|a t IH]; intros n Hn H.
  - subst n. cbn. f_equal. ring.
  - destruct n as [|n]; [discriminate|]. cbn [map osum fold_right].
    change (fold_right oadd (Some 0) (map f t)) with (osum (map f t)).
    rewrite (IH n) by (try (cbn in Hn; lia); intros; apply H; right; assumption).
    rewrite (H a) by (left; reflexivity). cbn [oadd]. f_equal. rewrite S_INR. ring.
Qed.

Lemma mean_level : forall p fmax nb fs es a1s b1s xs c s,
  length es = length fs ->
  scaled p fs es = map Some xs ->                       (* no NaN bin *)
  (forall x, In x xs -> 0 < x) ->
  (0 < nb)%nat ->
  (i_min_of fs <= s < i_max_of fs fmax nb)%nat ->
  (forall ii, (ii < nb)%nat -> nth (s + ii) xs 0 = c) ->          (* E f^p = c on window s *)
  (forall k c', (i_min_of fs <= k < i_max_of fs fmax nb)%nat ->   (* every flat window has level c *)
      (forall ii, (ii < nb)%nat -> nth (k + ii) xs 0 = c') -> c' = c) ->
  exists a1 b1, eq_mean p fmax nb fs es a1s b1s = Some (Some c, a1, b1).
Proof.
  intros p fmax nb fs es a1s b1s xs c s Hlen Hsc Hpos Hnb Hs Hwin Huniq.
  unfold eq_mean. rewrite Hsc.
  set (imin := i_min_of fs) in *. set (imax := i_max_of fs fmax nb) in *.
  destruct (Nat.leb_spec imax imin) as [Hle|Hlt]; [lia|].
  assert (Hnf : length xs = length fs).
  { rewrite <- (map_length Some xs), <- Hsc. apply scaled_length. exact Hlen. }
  assert (Himax : (imax <= length fs - nb)%nat) by (unfold imax, i_max_of; apply Nat.le_min_r).
  assert (Hfit : forall k, (k < imax)%nat -> (k + nb <= length xs)%nat) by (intros; lia).
  set (W := fun i => firstn nb (skipn i xs)).
  assert (HWne : forall k, (k < imax)%nat -> W k <> []).
  { intros k Hk E. assert (length (W k) = nb) by (apply window_length; auto). rewrite E in H. cbn in H. lia. }
  assert (HWpos : forall k x, In x (W k) -> 0 < x).
  { intros k x Hx. apply Hpos. unfold W in Hx. apply In_firstn_in in Hx.
    apply In_skipn_in in Hx. exact Hx. }
  set (vs := map (fun i => relvar (W i)) (seq imin (imax - imin))).
  assert (Hvar : variances nb (map Some xs) imin imax = map VFin vs).
  { unfold variances, vs. rewrite map_map. apply map_ext_in. intros i Hi.
    apply in_seq in Hi. rewrite window_Some. apply window_var_pos.
    - apply HWne. lia.
    - apply HWpos. }
  rewrite Hvar, argminV_fin.
  assert (Hvne : vs <> []).
  { unfold vs. destruct (imax - imin)%nat eqn:E; [lia|]. cbn. congruence. }
  destruct (argminR_spec vs Hvne) as (Hk0 & Hmin).
  set (k0 := argminR vs) in *.
  assert (Hlvs : length vs = (imax - imin)%nat) by (unfold vs; rewrite map_length, seq_length; reflexivity).
  rewrite Hlvs in Hk0.
  set (k := (k0 + imin)%nat).
  assert (Hk : (imin <= k < imax)%nat) by (unfold k; lia).
  assert (Hnthvs : forall j, (j < imax - imin)%nat -> nth j vs 0 = relvar (W (imin + j)%nat)).
  { intros j Hj. unfold vs.
    rewrite nth_indep with (d' := (fun i => relvar (W i)) O) by (rewrite map_length, seq_length; exact Hj).
    rewrite (map_nth (fun i => relvar (W i))). rewrite seq_nth by exact Hj. reflexivity. }
  (* window s is flat: relative variance 0 *)
  assert (Hc0 : 0 < c).
  { rewrite <- (Hwin O Hnb). apply Hpos. apply nth_In. specialize (Hfit s). lia. }
  assert (Hvs0 : relvar (W s) = 0).
  { apply relvar_const with (c := c); [apply HWne; lia|lra|].
    intros x Hx. apply window_in in Hx; [|apply Hfit; lia]. destruct Hx as (ii & Hii & ->). apply Hwin. exact Hii. }
  assert (Hvk : relvar (W k) = 0).
  { apply Rle_antisym.
    - rewrite <- Hvs0. replace k with (imin + k0)%nat by (unfold k; lia).
      rewrite <- Hnthvs by exact Hk0. apply Hmin.
      replace s with (imin + (s - imin))%nat by lia. rewrite <- Hnthvs by lia.
      apply nth_In. rewrite Hlvs. lia.
    - apply relvar_nonneg; [apply HWne; lia|apply HWpos]. }
  assert (Hflat : forall ii, (ii < nb)%nat -> nth (k + ii) xs 0 = meanR (W k)).
  { intros ii Hii. rewrite <- (window_nth nb xs k ii Hii) by (apply Hfit; lia).
    apply relvar_zero_const; [apply HWne; lia|apply HWpos|exact Hvk|].
    apply nth_In. unfold W. rewrite window_length by (apply Hfit; lia). exact Hii. }
  assert (Hlevel : meanR (W k) = c) by (apply (Huniq k); [lia|exact Hflat]).
  exists (avg_clipped (length fs) nb k a1s), (avg_clipped (length fs) nb k b1s).
  f_equal. f_equal. f_equal.
  unfold avg_clipped.
  rewrite (osum_const c nb) ; [| apply seq_length |].
  - cbn. f_equal. field. apply Rgt_not_eq. apply lt_0_INR. exact Hnb.
  - intros ii Hii. apply in_seq in Hii.
    unfold onth, clipidx.
    set (q := Nat.min (k + ii) (length fs - 1 - nb)).
    assert (Hq : exists jj, (jj < nb)%nat /\ q = (k + jj)%nat).
    { exists (q - k)%nat. unfold q. lia. }
    destruct Hq as (jj & Hjj & ->).
    rewrite nth_indep with (d' := Some 0) by (rewrite map_length; specialize (Hfit k); lia).
    rewrite (map_nth Some). f_equal. rewrite Hflat by exact Hjj. exact Hlevel.
Qed.

(* ================================================================== *)
(* the premises of the level theorems are satisfiable (concrete spectra)   *)
(* ================================================================== *)
Lemma powr_p1 : forall x, 0 < x -> powr x 1 = x.
Proof. intros x H. unfold powr. destruct (Req_EM_T x 0); [lra|]. apply Rpower_1. exact H. Qed.

Ltac step_R :=
  match goal with |- context [Rlt_dec ?a ?b] =>
    lazymatch a with context [Rlt_dec _ _] => fail | _ => idtac end;
    lazymatch b with context [Rlt_dec _ _] => fail | _ => idtac end;
    destruct (Rlt_dec a b); try (exfalso; lra); cbn [nth]
  end.
Ltac decide_R :=
  unfold Rabs;
  repeat (match goal with |- context [Rcase_abs ?a] => destruct (Rcase_abs a); try (exfalso; lra) end);
  repeat step_R; try reflexivity.

Lemma ex_imin : i_min_of [1; 2; 3; 4] = 0%nat.
Proof. unfold i_min_of. cbn [map argminR nth]. decide_R. Qed.

Lemma ex_imax : i_max_of [1; 2; 3; 4] 4 2 = 2%nat.
Proof. unfold i_max_of. rewrite ex_imin. cbn [map argminR nth length]. decide_R. Qed.

(* a spectrum with E f = 1 on bins 1..2 (p = 1, nb = 2): the mean method returns level 1 *)
Lemma mean_level_example :
  exists a1 b1,
  eq_mean 1 4 2 [1; 2; 3; 4] [Some 5; Some (1 / 2); Some (1 / 3); Some (7 / 4)] [] [] = Some (Some 1, a1, b1).
Proof.
  apply (mean_level 1 4 2 [1; 2; 3; 4] _ [] [] [5; 1; 1; 7] 1 1%nat).
  - reflexivity.
  - cbn [scaled omul map]. rewrite !powr_p1 by lra. repeat f_equal; field.
  - intros x [<-|[<-|[<-|[<-|[]]]]]; lra.
  - lia.
  - rewrite ex_imin, ex_imax. lia.
  - intros ii Hii. destruct ii as [|[|ii]]; try lia; reflexivity.
  - rewrite ex_imin, ex_imax. intros k c' Hk Hflat.
    assert (k = 0 \/ k = 1)%nat as [->| ->] by lia.
    + pose proof (Hflat 0%nat ltac:(lia)) as H0. pose proof (Hflat 1%nat ltac:(lia)) as H1. cbn in H0, H1. lra.
    + pose proof (Hflat 0%nat ltac:(lia)) as H0. cbn in H0. lra.
Qed.

Lemma powr_2_4 : powr 2 4 = 16.
Proof.
  unfold powr. destruct (Req_EM_T 2 0); [lra|].
  replace 4 with (INR 4) by (simpl; ring). rewrite Rpower_pow by lra. simpl. ring.
Qed.
Lemma powr_1_4 : powr 1 4 = 1.
Proof.
  unfold powr. destruct (Req_EM_T 1 0); [lra|].
  replace 4 with (INR 4) by (simpl; ring). rewrite Rpower_pow by lra. simpl. ring.
Qed.

(* E = f^-4 on both bins: the peak method returns level 1 *)
Lemma peak_level_example :
  fst (fst (eq_peak 4 [1; 2] [Some 1; Some (1 / 16)] [] [])) = Some 1.
Proof.
  apply (peak_f4_level 4 [1; 2] _ [] [] 1 1%nat).
  - reflexivity.
  - cbn. lia.
  - cbn [nth]. rewrite powr_2_4. lra.
  - cbn [nth]. rewrite powr_2_4. reflexivity.
  - intros j Hj. cbn in Hj. destruct j as [|[|j]]; try lia; cbn [nth omul fill0].
    + rewrite powr_1_4. lra.
    + rewrite powr_2_4. lra.
Qed.
