(* Proofs about Model/SourceTerms.v : sign, support, linearity, bulk = integral, imbalance, batches. *)
From Coq Require Import Reals List Arith ZArith Lia Lra Bool.
From OSU.Lib Require Import SrcAuxDefs SrcAuxLemmas.
From OSU.Model Require Import SourceTerms.
Import ListNotations.
Open Scope R_scope.

(* ------------------------------------------------------------------ *)
(* premises                                                             *)
(* ------------------------------------------------------------------ *)
Definition E_nonneg (E : field) : Prop := forall i j, 0 <= fnth E i j.
Definition E_zero (E : field) : Prop := forall i j, fnth E i j = 0.
Definition E_pos (g : grid) (E : field) : Prop :=
  forall i j, (i < nfreq g)%nat -> (j < ndir g)%nat -> 0 < fnth E i j.
Definition grid_ok (g : grid) : Prop :=
  (forall i, 0 <= gw g i) /\ (forall i, 0 <= gdf g i) /\ (forall j, 0 <= gdth g j).
Definition list_pos (n : nat) (l : list R) : Prop := forall i, (i < n)%nat -> 0 < rnth l i.
Definition gen_par_ok (p : gen_par) : Prop :=
  0 < gp_betamax p /\ 0 < gp_kappa p /\ 0 < gp_rho_a p /\ 0 < gp_rho_w p.

(* ------------------------------------------------------------------ *)
(* small facts                                                          *)
(* ------------------------------------------------------------------ *)
Lemma fnth_mk_field_out : forall nf nd f i j, ((nf <= i) \/ (nd <= j))%nat ->
  fnth (mk_field nf nd f) i j = 0.
Proof.
  intros nf nd f i j H. unfold fnth.
  destruct (le_lt_dec nf i) as [Hi|Hi].
  - rewrite (nth_overflow (mk_field nf nd f)) by (rewrite mk_field_length; exact Hi).
    destruct j; reflexivity.
  - rewrite nth_mk_field_row by exact Hi.
    apply nth_overflow. rewrite map_length, seq_length. lia.
Qed.

(* a property that holds for the entries of an nf x nd field built from f and for 0 *)
Lemma fnth_mk_field_ind : forall (P : R -> Prop) nf nd f i j,
  P 0 -> (forall i j, (i < nf)%nat -> (j < nd)%nat -> P (f i j)) -> P (fnth (mk_field nf nd f) i j).
Proof.
  intros P nf nd f i j P0 Pf.
  destruct (le_lt_dec nf i) as [Hi|Hi]; [rewrite fnth_mk_field_out by lia; exact P0|].
  destruct (le_lt_dec nd j) as [Hj|Hj]; [rewrite fnth_mk_field_out by lia; exact P0|].
  rewrite fnth_mk_field by assumption. apply Pf; assumption.
Qed.

(* 0 <= a product, factor by factor (syntactic products only: definitions are not unfolded) *)
Ltac mpos :=
  first [ assumption
        | match goal with |- 0 <= _ * _ => apply Rmult_le_pos; mpos end
        | lra ].

Lemma pow4_nonneg : forall x, 0 <= x ^ 4.
Proof. intros. replace (x ^ 4) with ((x * x) * (x * x)) by ring. apply Rle_0_sqr. Qed.
Lemma pow2_nonneg : forall x, 0 <= x ^ 2.
Proof. intros. apply pow2_ge_0. Qed.

Lemma gen_const_pos : forall p, gen_par_ok p -> 0 < gen_const p.
Proof.
  intros p (Hb & Hk & Ha & Hw). unfold gen_const.
  assert (0 < gp_kappa p ^ 2) by (apply pow_lt; exact Hk).
  apply Rdiv_lt_0_compat; [|exact Hw].
  apply Rmult_lt_0_compat; [|exact Ha].
  apply Rdiv_lt_0_compat; assumption.
Qed.

(* the wrapped mutual angle has the cosine of the plain difference *)
Lemma cos_mutual_eq : forall th wd, cos_mutual th wd = cos (th - wd * PI / 180).
Proof.
  intros th wd. unfold cos_mutual.
  rewrite cos_minus, cos_PI, sin_PI, cos_pymod_2PI.
  rewrite neg_cos. ring.
Qed.

(* ------------------------------------------------------------------ *)
(* ST4 wind input                                                       *)
(* ------------------------------------------------------------------ *)
Lemma st4_growth_nonneg : forall p ustar z0 k w c,
  0 <= gen_const p -> 0 <= w -> 0 <= st4_growth p ustar z0 k w c.
Proof.
  intros p ustar z0 k w c Hc Hw. unfold st4_growth.
  destruct (Rgt_dec c 0); [|lra].
  cbv zeta.
  set (lzc := if Rgt_dec _ 0 then 0 else _).
  set (W := k * ustar / w * c).
  assert (0 < exp lzc) by apply exp_pos.
  assert (0 <= lzc ^ 4) by apply pow4_nonneg.
  assert (0 <= W ^ 2) by apply pow2_nonneg.
  mpos.
Qed.

Lemma st4_rate_nonneg : forall p ustar z0 k w c e,
  0 <= gen_const p -> 0 <= w -> 0 <= e -> 0 <= st4_rate p ustar z0 k w c e.
Proof.
  intros. unfold st4_rate. destruct (Rgt_dec c 0); [|lra].
  apply Rmult_le_pos; [apply st4_growth_nonneg|]; assumption.
Qed.

Lemma st4_rate_linear : forall p ustar z0 k w c a b e f,
  st4_rate p ustar z0 k w c (a * e + b * f)
  = a * st4_rate p ustar z0 k w c e + b * st4_rate p ustar z0 k w c f.
Proof. intros. unfold st4_rate. destruct (Rgt_dec c 0); ring. Qed.

Lemma st4_input_k_entry : forall p wnd z0 g ks E i j, (i < nfreq g)%nat -> (j < ndir g)%nat ->
  fnth (st4_input_k p wnd z0 g ks E) i j
  = st4_rate p (friction_velocity p wnd z0) z0 (rnth ks i) (gw g i)
             (cos (gth g j - wdir wnd * PI / 180)) (fnth E i j).
Proof.
  intros p wnd z0 g ks E i j Hi Hj. unfold st4_input_k. cbv zeta.
  rewrite fnth_mk_field by assumption.
  rewrite (rnth_map (fun th => cos_mutual th (wdir wnd))) by exact Hj.
  rewrite cos_mutual_eq. reflexivity.
Qed.

Lemma st4_input_k_nonneg : forall p wnd z0 g ks E,
  gen_par_ok p -> (forall i, 0 <= gw g i) -> E_nonneg E ->
  forall i j, 0 <= fnth (st4_input_k p wnd z0 g ks E) i j.
Proof.
  intros p wnd z0 g ks E Hp Hw HE i j. unfold st4_input_k. cbv zeta.
  apply fnth_mk_field_ind; [lra|]. intros i0 j0 _ _.
  apply st4_rate_nonneg; [left; apply gen_const_pos; exact Hp|apply Hw|apply HE].
Qed.

Theorem st4_input_nonneg : forall p wnd depth z0 g E,
  gen_par_ok p -> (forall i, 0 <= gw g i) -> E_nonneg E ->
  forall i j, 0 <= fnth (st4_input p wnd depth z0 g E) i j.
Proof. intros. unfold st4_input. apply st4_input_k_nonneg; assumption. Qed.

Theorem st4_input_zero_if_E_zero : forall p wnd depth z0 g E i j,
  fnth E i j = 0 -> fnth (st4_input p wnd depth z0 g E) i j = 0.
Proof.
  intros p wnd depth z0 g E i j H0. unfold st4_input, st4_input_k. cbv zeta.
  destruct (le_lt_dec (nfreq g) i) as [Hi|Hi]; [apply fnth_mk_field_out; lia|].
  destruct (le_lt_dec (ndir g) j) as [Hj|Hj]; [apply fnth_mk_field_out; lia|].
  rewrite fnth_mk_field by assumption. rewrite H0. unfold st4_rate.
  destruct (Rgt_dec _ 0); ring.
Qed.

Theorem st4_input_zero_upwind : forall p wnd depth z0 g E i j,
  (j < ndir g)%nat -> cos (gth g j - wdir wnd * PI / 180) <= 0 ->
  fnth (st4_input p wnd depth z0 g E) i j = 0.
Proof.
  intros p wnd depth z0 g E i j Hj Hc. unfold st4_input.
  destruct (le_lt_dec (nfreq g) i) as [Hi|Hi];
    [unfold st4_input_k; cbv zeta; apply fnth_mk_field_out; lia|].
  rewrite st4_input_k_entry by assumption. unfold st4_rate.
  destruct (Rgt_dec _ 0); [lra|reflexivity].
Qed.

Theorem st4_input_linear_in_E : forall p wnd depth z0 g a b E F i j,
  fnth (st4_input p wnd depth z0 g (lin_field (nfreq g) (ndir g) a b E F)) i j
  = a * fnth (st4_input p wnd depth z0 g E) i j + b * fnth (st4_input p wnd depth z0 g F) i j.
Proof.
  intros p wnd depth z0 g a b E F i j. unfold st4_input, st4_input_k. cbv zeta.
  destruct (le_lt_dec (nfreq g) i) as [Hi|Hi]; [rewrite !fnth_mk_field_out by lia; ring|].
  destruct (le_lt_dec (ndir g) j) as [Hj|Hj]; [rewrite !fnth_mk_field_out by lia; ring|].
  rewrite !fnth_mk_field by assumption. unfold lin_field. rewrite fnth_mk_field by assumption.
  apply st4_rate_linear.
Qed.

(* ------------------------------------------------------------------ *)
(* bulk = double sum with the grid's own steps                           *)
(* ------------------------------------------------------------------ *)
Theorem bulk_is_integral : forall g S,
  bulk g S = rsum (fun i => rsum (fun j => fnth S i j * gdf g i * gdth g j) (ndir g)) (nfreq g).
Proof. intros. unfold bulk. apply sum2_upto_rsum. Qed.

Lemma bulk_nonneg : forall g S, grid_ok g -> (forall i j, 0 <= fnth S i j) -> 0 <= bulk g S.
Proof.
  intros g S (Hw & Hf & Hd) HS. rewrite bulk_is_integral.
  apply rsum_nonneg. intros i _. apply rsum_nonneg. intros j _.
  specialize (HS i j). specialize (Hf i). specialize (Hd j). mpos.
Qed.

Lemma bulk_nonpos : forall g S, grid_ok g -> (forall i j, fnth S i j <= 0) -> bulk g S <= 0.
Proof.
  intros g S (Hw & Hf & Hd) HS. rewrite bulk_is_integral.
  apply rsum_nonpos. intros i _. apply rsum_nonpos. intros j _.
  assert (0 <= gdf g i * gdth g j) by (apply Rmult_le_pos; auto).
  specialize (HS i j). rewrite Rmult_assoc.
  replace (fnth S i j * (gdf g i * gdth g j)) with (- ((- fnth S i j) * (gdf g i * gdth g j))) by ring.
  assert (0 <= - fnth S i j * (gdf g i * gdth g j)) by (apply Rmult_le_pos; lra). lra.
Qed.

Lemma bulk_zero : forall g S, (forall i j, fnth S i j = 0) -> bulk g S = 0.
Proof.
  intros g S HS. rewrite bulk_is_integral. apply rsum_zero. intros i _. apply rsum_zero.
  intros j _. rewrite HS. ring.
Qed.

Lemma nth_map_lt : forall (A B : Type) (F : A -> B) l k d d', (k < length l)%nat ->
  nth k (map F l) d = F (nth k l d').
Proof.
  intros A B F l k d d' H. rewrite (nth_indep _ d (F d')) by (rewrite map_length; exact H).
  apply map_nth.
Qed.

Definition default_point : point := mkpoint [] None (mkwind 0 0 U10) 0.

Theorem bulk_generation_is_integral : forall p g b k d,
  (k < length b)%nat ->
  nth k (gen_bulk_batch p g b) d
  = let S := nth k (gen_rate_batch p g b) [] in
    rsum (fun i => rsum (fun j => fnth S i j * gdf g i * gdth g j) (ndir g)) (nfreq g).
Proof.
  intros p g b k d Hk. cbv zeta. unfold gen_bulk_batch, gen_rate_batch.
  rewrite (nth_map_lt _ _ _ b k d default_point Hk).
  rewrite (nth_map_lt _ _ (fun x => st4_input p (pt_wind x) (pt_depth x) (pt_z0 x) g (pt_E x))
             b k [] default_point Hk).
  apply bulk_is_integral.
Qed.

Theorem bulk_dissipation_is_integral : forall D g b k d,
  (k < length b)%nat ->
  nth k (diss_bulk_batch D g b) d
  = let S := nth k (diss_rate_batch D g b) [] in
    rsum (fun i => rsum (fun j => fnth S i j * gdf g i * gdth g j) (ndir g)) (nfreq g).
Proof.
  intros D g b k d Hk. cbv zeta. unfold diss_bulk_batch, diss_rate_batch.
  rewrite (nth_map_lt _ _ _ b k d default_point Hk).
  rewrite (nth_map_lt _ _ (fun x => D (pt_depth x) g (pt_E x)) b k [] default_point Hk).
  apply bulk_is_integral.
Qed.

(* ------------------------------------------------------------------ *)
(* batches: every point gets the result it would get alone               *)
(* ------------------------------------------------------------------ *)
Theorem gen_rate_batch_independent : forall p g b k x,
  nth_error b k = Some x ->
  nth_error (gen_rate_batch p g b) k = Some (st4_input p (pt_wind x) (pt_depth x) (pt_z0 x) g (pt_E x)).
Proof. intros p g b k x H. unfold gen_rate_batch. rewrite nth_error_map, H. reflexivity. Qed.

Theorem gen_bulk_batch_independent : forall p g b k x,
  nth_error b k = Some x ->
  nth_error (gen_bulk_batch p g b) k
  = Some (bulk g (st4_input p (pt_wind x) (pt_depth x) (pt_z0 x) g (pt_E x))).
Proof. intros p g b k x H. unfold gen_bulk_batch. rewrite nth_error_map, H. reflexivity. Qed.

Theorem diss_rate_batch_independent : forall D g b k x,
  nth_error b k = Some x ->
  nth_error (diss_rate_batch D g b) k = Some (D (pt_depth x) g (pt_E x)).
Proof. intros D g b k x H. unfold diss_rate_batch. rewrite nth_error_map, H. reflexivity. Qed.

Theorem diss_bulk_batch_independent : forall D g b k x,
  nth_error b k = Some x ->
  nth_error (diss_bulk_batch D g b) k = Some (bulk g (D (pt_depth x) g (pt_E x))).
Proof. intros D g b k x H. unfold diss_bulk_batch. rewrite nth_error_map, H. reflexivity. Qed.

(* a batch result does not change when other points are added before / after *)
Theorem gen_rate_batch_app : forall p g b1 b2,
  gen_rate_batch p g (b1 ++ b2) = gen_rate_batch p g b1 ++ gen_rate_batch p g b2.
Proof. intros. unfold gen_rate_batch. apply map_app. Qed.

(* ------------------------------------------------------------------ *)
(* imbalance                                                            *)
(* ------------------------------------------------------------------ *)
Theorem imbalance_def : forall g gen dis dedt i j, (i < nfreq g)%nat -> (j < ndir g)%nat ->
  fnth (imbalance g gen dis dedt) i j = fnth gen i j + fnth dis i j - fnth dedt i j.
Proof. intros. unfold imbalance. rewrite fnth_mk_field by assumption. reflexivity. Qed.

Theorem bulk_imbalance_def : forall a b c, bulk_imbalance a b c = a + b - c.
Proof. reflexivity. Qed.

(* ------------------------------------------------------------------ *)
(* ST4 whitecapping                                                     *)
(* ------------------------------------------------------------------ *)
Lemma cum_row_nonneg : forall g cs ss speeds cgs thr ce cn i' acc,
  grid_ok g -> 0 <= cum_jacobian (rnth cgs i') -> 0 <= acc ->
  0 <= cum_row g cs ss speeds cgs thr ce cn i' acc.
Proof.
  intros g cs ss speeds cgs thr ce cn i' acc (Hw & Hf & Hd) Hj. unfold cum_row.
  generalize (seq 0 (ndir g)). intros l. revert acc.
  induction l as [|j' l IH]; intros acc Hacc; cbn [fold_left]; [exact Hacc|].
  apply IH. destruct (Rle_dec (fnth thr i' j') 0); [exact Hacc|].
  assert (0 <= sqrt ((rnth cs j' * rnth speeds i' - ce) ^ 2 + (rnth ss j' * rnth speeds i' - cn) ^ 2))
    by apply sqrt_pos.
  assert (0 <= fnth thr i' j' ^ 2) by apply pow2_nonneg.
  assert (0 <= gdf g i' * gdth g j') by (apply Rmult_le_pos; auto).
  assert (0 <= gdf g i' * gdth g j' * sqrt ((rnth cs j' * rnth speeds i' - ce) ^ 2 + (rnth ss j' * rnth speeds i' - cn) ^ 2)
               * (fnth thr i' j' ^ 2 * cum_jacobian (rnth cgs i'))).
  { apply Rmult_le_pos; [apply Rmult_le_pos; assumption|apply Rmult_le_pos; assumption]. }
  lra.
Qed.

Lemma cum_rows_nonneg : forall g cs ss speeds cgs thr ce cn limit idx acc,
  grid_ok g -> (forall i', In i' idx -> 0 <= cum_jacobian (rnth cgs i')) -> 0 <= acc ->
  0 <= cum_rows g cs ss speeds cgs thr ce cn limit idx acc.
Proof.
  intros g cs ss speeds cgs thr ce cn limit idx. induction idx as [|i' idx IH]; intros acc Hg Hj Hacc; simpl.
  - exact Hacc.
  - destruct (Rgt_dec (gw g i') limit); [exact Hacc|].
    apply IH; [exact Hg|intros; apply Hj; right; assumption|].
    apply cum_row_nonneg; [exact Hg|apply Hj; left; reflexivity|exact Hacc].
Qed.

Lemma cum_jacobian_nonneg : forall cg, 0 < cg -> 0 <= cum_jacobian cg.
Proof.
  intros cg H. unfold cum_jacobian.
  assert (0 < PI) by apply PI_RGT_0.
  assert (0 < 1 / cg) by (apply Rdiv_lt_0_compat; lra).
  assert (0 < PI / 180) by (apply Rdiv_lt_0_compat; lra).
  left. apply Rmult_lt_0_compat; [apply Rmult_lt_0_compat; [lra|assumption]|assumption].
Qed.

Lemma st4_cumulative_nonpos : forall q g ks cgs B E,
  grid_ok g -> list_pos (nfreq g) cgs -> E_nonneg E ->
  forall i j, fnth (st4_cumulative q g ks cgs B E) i j <= 0.
Proof.
  intros q g ks cgs B E Hg Hcg HE i j. unfold st4_cumulative.
  destruct (Rgt_dec (cb_const q) 0) as [Hc|Hc]; cbv zeta.
  - apply (fnth_mk_field_ind (fun x => x <= 0)); [lra|]. intros i0 j0 Hi0 Hj0.
    set (s := cum_strength _ _ _ _ _ _ _ _ _).
    assert (Hs : 0 <= s).
    { unfold s, cum_strength. apply cum_rows_nonneg; [exact Hg| |lra].
      intros i' Hin. apply in_seq in Hin. apply cum_jacobian_nonneg. apply Hcg. lia. }
    specialize (HE i0 j0).
    assert (0 <= 144 / 100 * cb_const q * s * fnth E i0 j0).
    { mpos. }
    lra.
  - apply (fnth_mk_field_ind (fun x => x <= 0)); intros; lra.
Qed.

Lemma st4_saturation_nonpos : forall q g B E,
  (forall i, 0 <= gw g i) -> E_nonneg E ->
  forall i j, fnth (st4_saturation_breaking q g B E) i j <= 0.
Proof.
  intros q g B E Hw HE i j. unfold st4_saturation_breaking.
  destruct (Rgt_dec (sb_const q) 0) as [Hc|Hc].
  - apply (fnth_mk_field_ind (fun x => x <= 0)); [lra|]. intros i0 j0 _ _.
    set (r := sat_rel_level _ _ _).
    assert (0 <= r ^ 2) by apply pow2_nonneg.
    specialize (HE i0 j0). specialize (Hw i0).
    assert (0 <= sb_const q * r ^ 2 * gw g i0 * fnth E i0 j0) by mpos.
    lra.
  - apply (fnth_mk_field_ind (fun x => x <= 0)); intros; lra.
Qed.

Theorem st4_diss_k_nonpos : forall q g ks cgs E,
  grid_ok g -> list_pos (nfreq g) cgs -> E_nonneg E ->
  forall i j, fnth (st4_dissipation_k q g ks cgs E) i j <= 0.
Proof.
  intros q g ks cgs E Hg Hcg HE i j. unfold st4_dissipation_k. cbv zeta.
  apply (fnth_mk_field_ind (fun x => x <= 0)); [lra|]. intros i0 j0 _ _.
  pose proof (st4_cumulative_nonpos q g ks cgs (band_saturation q g ks cgs E) E Hg Hcg HE i0 j0).
  destruct Hg as (Hw & _).
  pose proof (st4_saturation_nonpos q g (band_saturation q g ks cgs E) E Hw HE i0 j0).
  lra.
Qed.

Lemma st4_cumulative_zero : forall q g ks cgs B E i j,
  fnth E i j = 0 -> fnth (st4_cumulative q g ks cgs B E) i j = 0.
Proof.
  intros q g ks cgs B E i j H0. unfold st4_cumulative.
  destruct (Rgt_dec (cb_const q) 0); cbv zeta.
  - destruct (le_lt_dec (nfreq g) i) as [Hi|Hi]; [apply fnth_mk_field_out; lia|].
    destruct (le_lt_dec (ndir g) j) as [Hj|Hj]; [apply fnth_mk_field_out; lia|].
    rewrite fnth_mk_field by assumption. rewrite H0. ring.
  - apply (fnth_mk_field_ind (fun x => x = 0)); intros; reflexivity.
Qed.

Lemma st4_saturation_zero : forall q g B E i j,
  fnth E i j = 0 -> fnth (st4_saturation_breaking q g B E) i j = 0.
Proof.
  intros q g B E i j H0. unfold st4_saturation_breaking.
  destruct (Rgt_dec (sb_const q) 0).
  - destruct (le_lt_dec (nfreq g) i) as [Hi|Hi]; [apply fnth_mk_field_out; lia|].
    destruct (le_lt_dec (ndir g) j) as [Hj|Hj]; [apply fnth_mk_field_out; lia|].
    rewrite fnth_mk_field by assumption. rewrite H0. ring.
  - apply (fnth_mk_field_ind (fun x => x = 0)); intros; reflexivity.
Qed.

Theorem st4_diss_k_zero_if_E_zero : forall q g ks cgs E i j,
  fnth E i j = 0 -> fnth (st4_dissipation_k q g ks cgs E) i j = 0.
Proof.
  intros q g ks cgs E i j H0. unfold st4_dissipation_k. cbv zeta.
  destruct (le_lt_dec (nfreq g) i) as [Hi|Hi]; [apply fnth_mk_field_out; lia|].
  destruct (le_lt_dec (ndir g) j) as [Hj|Hj]; [apply fnth_mk_field_out; lia|].
  rewrite fnth_mk_field by assumption.
  rewrite st4_cumulative_zero, st4_saturation_zero by exact H0. ring.
Qed.

(* top level (wavenumber and group velocity from the Newton iteration of the code) *)
Definition cg_list (depth : option R) (g : grid) : list R :=
  map (group_velocity depth) (wavenumbers GRAV depth (g_w g)).

Theorem st4_diss_nonpos : forall q depth g E,
  grid_ok g -> list_pos (nfreq g) (cg_list depth g) -> E_nonneg E ->
  forall i j, fnth (st4_dissipation q depth g E) i j <= 0.
Proof. intros. unfold st4_dissipation. cbv zeta. apply st4_diss_k_nonpos; assumption. Qed.

Theorem st4_diss_zero_if_E_zero : forall q depth g E i j,
  fnth E i j = 0 -> fnth (st4_dissipation q depth g E) i j = 0.
Proof. intros. unfold st4_dissipation. cbv zeta. apply st4_diss_k_zero_if_E_zero; assumption. Qed.

Theorem st4_diss_zero_spectrum : forall q depth g E,
  E_zero E -> (forall i j, fnth (st4_dissipation q depth g E) i j = 0)
              /\ bulk g (st4_dissipation q depth g E) = 0.
Proof.
  intros q depth g E H0.
  assert (H : forall i j, fnth (st4_dissipation q depth g E) i j = 0)
    by (intros; apply st4_diss_zero_if_E_zero; apply H0).
  split; [exact H|apply bulk_zero; exact H].
Qed.

(* ------------------------------------------------------------------ *)
(* ST6 whitecapping                                                     *)
(* ------------------------------------------------------------------ *)
Theorem st6_diss_k_nonpos : forall q g ks cgs E,
  0 <= s6_a1 q -> 0 <= s6_a2 q -> (forall i, 0 <= gw g i) -> E_nonneg E ->
  forall i j, fnth (st6_dissipation_k q g ks cgs E) i j <= 0.
Proof.
  intros q g ks cgs E Ha1 Ha2 Hw HE i j. unfold st6_dissipation_k. cbv zeta.
  apply (fnth_mk_field_ind (fun x => x <= 0)); [lra|]. intros i0 j0 Hi0 Hj0.
  unfold st6_inherent, st6_cumulative. rewrite !fnth_mk_field by assumption.
  set (e := st6_exceedence q g ks cgs E).
  pose proof (powr_nonneg (rnth e i0) (s6_p1 q)).
  pose proof (powr_nonneg (sum_upto (fun i' => rnth e i' * gdf g i') (S i0)) (s6_p2 q)).
  specialize (HE i0 j0). specialize (Hw i0).
  assert (0 < PI) by apply PI_RGT_0.
  assert (0 <= gw g i0 / 2 / PI).
  { unfold Rdiv. assert (0 < / PI) by (apply Rinv_0_lt_compat; exact H1). mpos. }
  assert (0 <= s6_a1 q * powr (rnth e i0) (s6_p1 q) * (gw g i0 / 2 / PI) * fnth E i0 j0)
    by mpos.
  assert (0 <= s6_a2 q * powr (sum_upto (fun i' => rnth e i' * gdf g i') (S i0)) (s6_p2 q) * fnth E i0 j0)
    by mpos.
  lra.
Qed.

Theorem st6_diss_k_zero_if_E_zero : forall q g ks cgs E i j,
  fnth E i j = 0 -> fnth (st6_dissipation_k q g ks cgs E) i j = 0.
Proof.
  intros q g ks cgs E i j H0. unfold st6_dissipation_k. cbv zeta.
  destruct (le_lt_dec (nfreq g) i) as [Hi|Hi]; [apply fnth_mk_field_out; lia|].
  destruct (le_lt_dec (ndir g) j) as [Hj|Hj]; [apply fnth_mk_field_out; lia|].
  rewrite fnth_mk_field by assumption.
  unfold st6_inherent, st6_cumulative. rewrite !fnth_mk_field by assumption.
  rewrite H0. ring.
Qed.

Theorem st6_diss_nonpos : forall q depth g E,
  0 <= s6_a1 q -> 0 <= s6_a2 q -> (forall i, 0 <= gw g i) -> E_nonneg E ->
  forall i j, fnth (st6_dissipation q depth g E) i j <= 0.
Proof. intros. unfold st6_dissipation. cbv zeta. apply st6_diss_k_nonpos; assumption. Qed.

Theorem st6_diss_zero_if_E_zero : forall q depth g E i j,
  fnth E i j = 0 -> fnth (st6_dissipation q depth g E) i j = 0.
Proof. intros. unfold st6_dissipation. cbv zeta. apply st6_diss_k_zero_if_E_zero; assumption. Qed.

Theorem st6_diss_zero_spectrum : forall q depth g E,
  E_zero E -> (forall i j, fnth (st6_dissipation q depth g E) i j = 0)
              /\ bulk g (st6_dissipation q depth g E) = 0.
Proof.
  intros q depth g E H0.
  assert (H : forall i j, fnth (st6_dissipation q depth g E) i j = 0)
    by (intros; apply st6_diss_zero_if_E_zero; apply H0).
  split; [exact H|apply bulk_zero; exact H].
Qed.

(* ------------------------------------------------------------------ *)
(* Romero                                                               *)
(* ------------------------------------------------------------------ *)
Theorem romero_k_nonpos : forall q g ks cgs E,
  0 <= ro_const q -> 0 <= ro_prob q -> ro_g q <> 0 ->
  (forall i, 0 <= gw g i) -> list_pos (nfreq g) ks -> list_pos (nfreq g) cgs ->
  forall i j, fnth (romero_k q g ks cgs E) i j <= 0.
Proof.
  intros q g ks cgs E Hc Hp Hg Hw Hk Hcg i j. unfold romero_k. cbv zeta.
  apply (fnth_mk_field_ind (fun x => x <= 0)); [lra|]. intros i0 j0 Hi0 Hj0.
  assert (Hg2 : 0 < ro_g q ^ 2).
  { replace (ro_g q ^ 2) with (ro_g q * ro_g q) by ring.
    destruct (Rtotal_order (ro_g q) 0) as [H|[H|H]]; [|contradiction|].
    - replace (ro_g q * ro_g q) with ((- ro_g q) * (- ro_g q)) by ring. apply Rmult_lt_0_compat; lra.
    - apply Rmult_lt_0_compat; lra. }
  specialize (Hk i0 Hi0). specialize (Hcg i0 Hi0). specialize (Hw i0).
  assert (HPI : 0 < PI) by apply PI_RGT_0.
  (* crest-length rate >= 0 *)
  set (crest := map _ (dir_integrate g _)).
  assert (Hcrest : 0 <= rnth crest i0).
  { unfold crest, rnth.
    set (F := fun s : R => let delta := sqrt s - sqrt (ro_int_threshold q) in
                            if Rgt_dec delta 0 then ro_const q * powr delta (5 / 2) / ro_g q ^ 2 else 0).
    assert (HF : forall s, 0 <= F s).
    { intros s. unfold F. cbv zeta. destruct (Rgt_dec _ 0); [|lra].
      apply Rmult_le_pos; [apply Rmult_le_pos; [exact Hc|apply powr_nonneg]|].
      left. apply Rinv_0_lt_compat. exact Hg2. }
    change (0 <= nth i0 (map F (dir_integrate g (mk_field (nfreq g) (ndir g)
              (fun i1 j1 => dir_saturation (rnth ks i1) (rnth cgs i1) (fnth E i1 j1))))) 0).
    destruct (le_lt_dec (length (dir_integrate g (mk_field (nfreq g) (ndir g)
              (fun i1 j1 => dir_saturation (rnth ks i1) (rnth cgs i1) (fnth E i1 j1))))) i0) as [Ho|Ho].
    - rewrite nth_overflow by (rewrite map_length; exact Ho). lra.
    - rewrite (nth_indep _ 0 (F 0)) by (rewrite map_length; exact Ho). rewrite map_nth. apply HF. }
  destruct (Rgt_dec (rnth ks i0) 0) as [Hk0|Hk0]; [|lra].
  set (dsat := fnth _ i0 j0).
  assert (0 < exp (- ro_threshold q / dsat)) by apply exp_pos.
  assert (0 <= ro_prob q * exp (- ro_threshold q / dsat) / rnth ks i0).
  { apply Rmult_le_pos; [apply Rmult_le_pos; lra|left; apply Rinv_0_lt_compat; exact Hk]. }
  assert (0 <= (gw g i0 / rnth ks i0) ^ 5).
  { apply pow_le. apply Rmult_le_pos; [exact Hw|left; apply Rinv_0_lt_compat; exact Hk]. }
  assert (0 <= 2 * PI / rnth cgs i0).
  { apply Rmult_le_pos; [lra|left; apply Rinv_0_lt_compat; exact Hcg]. }
  assert (0 <= 2 * PI / rnth cgs i0 * rnth crest i0
               * (ro_prob q * exp (- ro_threshold q / dsat) / rnth ks i0)
               * (gw g i0 / rnth ks i0) ^ 5 / ro_g q ^ 2).
  { apply Rmult_le_pos; [|left; apply Rinv_0_lt_compat; exact Hg2].
    mpos. }
  lra.
Qed.

Definition k_list (depth : option R) (g : grid) : list R := wavenumbers GRAV depth (g_w g).

Theorem romero_nonpos : forall q depth g E,
  0 <= ro_const q -> 0 <= ro_prob q -> ro_g q <> 0 ->
  (forall i, 0 <= gw g i) -> list_pos (nfreq g) (k_list depth g) -> list_pos (nfreq g) (cg_list depth g) ->
  forall i j, fnth (romero_dissipation q depth g E) i j <= 0.
Proof. intros. unfold romero_dissipation. cbv zeta. apply romero_k_nonpos; assumption. Qed.

(* ------------------------------------------------------------------ *)
(* the premises on wavenumber / group velocity hold in deep water        *)
(* (the Newton iteration of the code stops after one step at k = w^2/g)  *)
(* ------------------------------------------------------------------ *)
Lemma disp_deep_exact : forall grav w, 0 < grav -> 0 <= w -> disp_w grav None (w ^ 2 / grav) = w.
Proof.
  intros grav w Hg Hw. unfold disp_w, tanh_kd.
  replace (grav * (w ^ 2 / grav) * 1) with (w ^ 2) by (field; lra).
  apply sqrt_pow2. exact Hw.
Qed.

Lemma deep_errors_zero : forall grav ws, 0 < grav -> Forall (fun w => 0 < w) ws ->
  map (fun t => disp_w grav None (snd t) - fst t) (combine ws (map (fun w => w ^ 2 / grav) ws))
  = map (fun _ => 0) ws.
Proof.
  intros grav ws Hg H. induction H as [|w ws Hw _ IH]; [reflexivity|].
  cbn [map combine fst snd]. rewrite IH. rewrite disp_deep_exact by lra. f_equal. lra.
Qed.

Lemma deep_update_fix : forall ws ks, length ks = length ws ->
  map (fun t => let '(w, (k, e)) := t in k - e / k_deriv None w k)
      (combine ws (combine ks (map (fun _ => 0) ws))) = ks.
Proof.
  induction ws as [|w ws IH]; intros ks Hl; destruct ks as [|k ks]; try discriminate; [reflexivity|].
  cbn [map combine]. rewrite IH by (simpl in Hl; lia). f_equal. unfold Rdiv. ring.
Qed.

Lemma deep_all_converged : forall ws, Forall (fun w => 0 < w) ws ->
  all_converged ws (map (fun _ => 0) ws) = true.
Proof.
  intros ws H. unfold all_converged. induction H as [|w ws Hw _ IH]; [reflexivity|].
  cbn [map combine forallb fst snd]. rewrite IH.
  destruct (Rlt_dec (Rabs 0 / w) (1 / 1000)) as [_|Hn]; [reflexivity|].
  exfalso. apply Hn. rewrite Rabs_R0. unfold Rdiv. rewrite Rmult_0_l. lra.
Qed.

Theorem wavenumbers_deep : forall grav ws, 0 < grav -> Forall (fun w => 0 < w) ws ->
  wavenumbers grav None ws = map (fun w => w ^ 2 / grav) ws.
Proof.
  intros grav ws Hg H. unfold wavenumbers. cbv zeta.
  rewrite deep_errors_zero by assumption.
  cbn [newton_k]. cbv zeta.
  rewrite deep_update_fix by (rewrite map_length; reflexivity).
  rewrite deep_errors_zero by assumption.
  rewrite deep_all_converged by assumption. reflexivity.
Qed.

Lemma GRAV_pos : 0 < GRAV.
Proof. unfold GRAV. lra. Qed.

Lemma grid_w_Forall : forall g, (forall i, (i < nfreq g)%nat -> 0 < gw g i) -> Forall (fun w => 0 < w) (g_w g).
Proof.
  intros g H. apply Forall_forall. intros w Hin.
  destruct (In_nth _ _ 0 Hin) as (i & Hi & Hn). rewrite <- Hn. apply (H i Hi).
Qed.

Theorem deep_water_premises : forall g, (forall i, (i < nfreq g)%nat -> 0 < gw g i) ->
  list_pos (nfreq g) (k_list None g) /\ list_pos (nfreq g) (cg_list None g).
Proof.
  intros g H. pose proof (grid_w_Forall g H) as HF.
  assert (Hk : forall i, (i < nfreq g)%nat -> 0 < rnth (k_list None g) i).
  { intros i Hi. unfold k_list. rewrite wavenumbers_deep by (exact GRAV_pos || exact HF).
    rewrite (rnth_map (fun w => w ^ 2 / GRAV)) by exact Hi.
    apply Rdiv_lt_0_compat; [apply pow_lt; apply (H i Hi)|exact GRAV_pos]. }
  split; [exact Hk|].
  intros i Hi. unfold cg_list. fold (k_list None g).
  assert (Hlen : length (k_list None g) = nfreq g).
  { unfold k_list. rewrite wavenumbers_deep by (exact GRAV_pos || exact HF). apply map_length. }
  rewrite rnth_map by (rewrite Hlen; exact Hi).
  specialize (Hk i Hi). set (k := rnth (k_list None g) i) in *.
  unfold group_velocity, cg_ratio, disp_w, tanh_kd.
  assert (0 < sqrt (GRAV * k * 1)).
  { apply sqrt_lt_R0. pose proof GRAV_pos. rewrite Rmult_1_r. apply Rmult_lt_0_compat; assumption. }
  apply Rmult_lt_0_compat; [lra|apply Rdiv_lt_0_compat; assumption].
Qed.
