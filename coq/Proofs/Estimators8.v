(* Proofs about Model/Estimators.v, part 8: (a) validity of the MEM2 distribution under the weaker premise
   "non-negative increments with positive sum"; (b) the Jacobian is positive semi-definite (it is a covariance
   matrix), which is why the code tries Cholesky first and why a failure can only come from rounding or from a
   degenerate (singular) covariance. *)
From Coq Require Import Reals List Arith Lra Lia.
From OSU.Model Require Import Estimators.
From OSU.Lib Require Import EstAuxSums.
From OSU.Proofs Require Import Estimators.
Import ListNotations.
Open Scope R_scope.

Lemma wsum_nonneg : forall f d, Forall (fun x => 0 < x) f -> Forall (fun x => 0 <= x) d -> 0 <= wsum f d.
Proof.
  induction f; intros d Hf Hd; destruct d; try (unfold wsum; simpl; lra).
  rewrite wsum_cons. inversion Hf; inversion Hd; subst.
  specialize (IHf d H2 H6). assert (0 <= a * r) by (apply Rmult_le_pos; lra). lra.
Qed.

Lemma wsum_pos_nonneg : forall f d, length d = length f ->
  Forall (fun x => 0 < x) f -> Forall (fun x => 0 <= x) d -> 0 < sumR d -> 0 < wsum f d.
Proof.
  induction f; intros d Hl Hf Hd Hs; destruct d; simpl in *; try discriminate; try lra.
  rewrite wsum_cons. inversion Hf; inversion Hd; subst.
  destruct (Rle_lt_dec r 0) as [Z|P].
  - assert (r = 0) by lra. subst r. rewrite Rmult_0_r, Rplus_0_l. apply IHf; auto. lra.
  - assert (0 <= wsum f d) by (apply wsum_nonneg; auto).
    assert (0 < a * r) by (apply Rmult_lt_0_compat; lra). lra.
Qed.

(* the premise of DESIGN: non-negative steps with positive sum *)
Lemma mem2_dist_valid_nonneg : forall l d th,
  length d = length th -> Forall (fun x => 0 <= x) d -> 0 < sumR d ->
  Forall (fun x => 0 < x) (dist l d th) /\ wsum (dist l d th) d = 1.
Proof.
  intros l d th Hl Hd Hs.
  assert (HZ : 0 < wsum (shape l th) d).
  { apply wsum_pos_nonneg; auto. - rewrite shape_length; auto. - apply shape_pos. }
  unfold dist, normalization. cbv zeta. split.
  - apply Forall_forall. intros x Hx. apply in_map_iff in Hx. destruct Hx as (e & <- & He).
    pose proof (shape_pos l th) as Hp. rewrite Forall_forall in Hp. specialize (Hp e He).
    apply Rmult_lt_0_compat; auto. apply Rdiv_lt_0_compat; lra.
  - rewrite wsum_scal_r. field. lra.
Qed.

(* ---------------- positive semi-definiteness ---------------- *)
(* variance of u under weights p >= 0 with sum 1 is >= 0:  sum p u^2 - (sum p u)^2 >= 0 *)
Lemma weighted_variance_nonneg : forall (pu : list (R * R)),
  Forall (fun x => 0 <= fst x) pu -> sumR (map fst pu) = 1 ->
  0 <= sumR (map (fun x => fst x * (snd x * snd x)) pu)
       - sumR (map (fun x => fst x * snd x) pu) * sumR (map (fun x => fst x * snd x) pu).
Proof.
  intros pu Hp H1.
  set (ub := sumR (map (fun x => fst x * snd x) pu)).
  assert (E : sumR (map (fun x => fst x * ((snd x - ub) * (snd x - ub))) pu)
              = sumR (map (fun x => fst x * (snd x * snd x)) pu) - ub * ub).
  { rewrite (sumR_map_ext _ (fun x => fst x * (snd x * snd x) + ((-2 * ub) * (fst x * snd x) + (ub * ub) * fst x)))
      by (intros; ring).
    rewrite !sumR_map_plus, !sumR_map_scal. fold ub. rewrite H1. ring. }
  rewrite <- E. apply sumR_nonneg. apply Forall_forall. intros y Hy.
  apply in_map_iff in Hy. destruct Hy as (x & <- & Hx).
  rewrite Forall_forall in Hp. specialize (Hp x Hx).
  apply Rmult_le_pos; auto. pose proof (Rle_0_sqr (snd x - ub)). unfold Rsqr in *. lra.
Qed.

From OSU.Proofs Require Import Estimators2.

Definition uform (v : V4) (t : R) : R := q1 v * tw 0 t + q2 v * tw 1 t + q3 v * tw 2 t + q4 v * tw 3 t.
(* v^T A v for a 4x4 matrix given as a function of (row, column) *)
Definition quad4 (v : V4) (A : nat -> nat -> R) : R :=
  q1 v * q1 v * A 0%nat 0%nat + q1 v * q2 v * A 0%nat 1%nat + q1 v * q3 v * A 0%nat 2%nat + q1 v * q4 v * A 0%nat 3%nat +
  q2 v * q1 v * A 1%nat 0%nat + q2 v * q2 v * A 1%nat 1%nat + q2 v * q3 v * A 1%nat 2%nat + q2 v * q4 v * A 1%nat 3%nat +
  q3 v * q1 v * A 2%nat 0%nat + q3 v * q2 v * A 2%nat 1%nat + q3 v * q3 v * A 2%nat 2%nat + q3 v * q4 v * A 2%nat 3%nat +
  q4 v * q1 v * A 3%nat 0%nat + q4 v * q2 v * A 3%nat 1%nat + q4 v * q3 v * A 3%nat 2%nat + q4 v * q4 v * A 3%nat 3%nat.

Lemma S2f_cons : forall m n l w d t th,
  S2f m n l (w :: d) (t :: th) = tw m t * tw n t * Ef l t * w + S2f m n l d th.
Proof. intros. unfold S2f. simpl map. rewrite wsum_cons. reflexivity. Qed.
Lemma Pf_cons : forall m l w d t th, Pf m l (w :: d) (t :: th) = tw m t * Ef l t * w + Pf m l d th.
Proof. intros. unfold Pf. simpl map. rewrite wsum_cons. reflexivity. Qed.
Lemma S2f_nil_l : forall m n l d, S2f m n l d [] = 0.
Proof. reflexivity. Qed.
Lemma S2f_nil_r : forall m n l t th, S2f m n l [] (t :: th) = 0.
Proof. reflexivity. Qed.
Lemma Pf_nil_l : forall m l d, Pf m l d [] = 0.
Proof. reflexivity. Qed.
Lemma Pf_nil_r : forall m l t th, Pf m l [] (t :: th) = 0.
Proof. reflexivity. Qed.

Lemma quad_S2 : forall v l th d,
  quad4 v (fun m n => S2f m n l d th) = wsum (map (fun t => uform v t * uform v t * Ef l t) th) d.
Proof.
  intros v l th. induction th as [|t th IH]; intros d.
  - unfold quad4. rewrite !S2f_nil_l. unfold wsum; simpl. ring.
  - destruct d as [|w d].
    + unfold quad4. rewrite !S2f_nil_r. unfold wsum; simpl. ring.
    + simpl map. rewrite wsum_cons, <- IH. unfold quad4. rewrite !S2f_cons. unfold uform. ring.
Qed.

Lemma lin_P : forall v l th d,
  q1 v * Pf 0 l d th + q2 v * Pf 1 l d th + q3 v * Pf 2 l d th + q4 v * Pf 3 l d th
  = wsum (map (fun t => uform v t * Ef l t) th) d.
Proof.
  intros v l th. induction th as [|t th IH]; intros d.
  - rewrite !Pf_nil_l. unfold wsum; simpl. ring.
  - destruct d as [|w d].
    + rewrite !Pf_nil_r. unfold wsum; simpl. ring.
    + simpl map. rewrite wsum_cons, <- IH. rewrite !Pf_cons. unfold uform. ring.
Qed.

Lemma wsum_as_pairs : forall (f : R -> R) th d,
  wsum (map f th) d = sumR (map (fun p => f (fst p) * snd p) (combine th d)).
Proof.
  intros f th. induction th; intros d; destruct d; try reflexivity.
  simpl map. rewrite wsum_cons. simpl. rewrite IHth. reflexivity.
Qed.

(* v^T J v >= 0: the Jacobian of the constraint function is positive semi-definite for every lambda *)
Lemma jacobian_psd : forall v l d th,
  th <> [] -> length d = length th -> Forall (fun x => 0 < x) d ->
  0 <= quad4 v (jacobian l d th).
Proof.
  intros v l d th H1 H2 H3.
  pose proof (Zf_pos l d th H1 H2 H3) as HZ.
  set (Z := Zf l d th) in *.
  assert (E : quad4 v (jacobian l d th)
              = wsum (map (fun t => uform v t * uform v t * Ef l t) th) d / Z
                - (wsum (map (fun t => uform v t * Ef l t) th) d / Z) * (wsum (map (fun t => uform v t * Ef l t) th) d / Z)).
  { rewrite <- quad_S2, <- lin_P. unfold quad4. rewrite !jacobian_closed by auto. fold Z. field. lra. }
  rewrite E. clear E.
  (* weights p = E d / Z on the pairs (t, w) *)
  set (pu := map (fun p : R * R => (Ef l (fst p) * snd p / Z, uform v (fst p))) (combine th d)).
  assert (Hp : Forall (fun x => 0 <= fst x) pu).
  { unfold pu. apply Forall_forall. intros x Hx. apply in_map_iff in Hx. destruct Hx as ((t, w) & <- & Hin). simpl.
    apply in_combine_r in Hin. rewrite Forall_forall in H3. specialize (H3 w Hin).
    apply Rlt_le. apply Rdiv_lt_0_compat; auto. apply Rmult_lt_0_compat; auto. apply exp_pos. }
  assert (Hs : sumR (map fst pu) = 1).
  { unfold pu. rewrite map_map. simpl.
    rewrite (sumR_map_ext _ (fun p => (Ef l (fst p) * snd p) * / Z)) by (intros; unfold Rdiv; ring).
    rewrite sumR_map_scal_r, <- (wsum_as_pairs (Ef l)). fold (Zf l d th). fold Z. field. lra. }
  pose proof (weighted_variance_nonneg pu Hp Hs) as V.
  unfold pu in V. rewrite !map_map in V. simpl in V.
  rewrite (sumR_map_ext _ (fun p => (uform v (fst p) * uform v (fst p) * Ef l (fst p)) * snd p * / Z)) in V
    by (intros; unfold Rdiv; ring).
  rewrite (sumR_map_ext (fun x : R * R => Ef l (fst x) * snd x / Z * uform v (fst x))
             (fun p => (uform v (fst p) * Ef l (fst p)) * snd p * / Z)) in V
    by (intros; unfold Rdiv; ring).
  rewrite !sumR_map_scal_r in V.
  rewrite <- (wsum_as_pairs (fun t => uform v t * uform v t * Ef l t)) in V.
  rewrite <- (wsum_as_pairs (fun t => uform v t * Ef l t)) in V.
  unfold Rdiv. lra.
Qed.
