(* The finite-depth formulas of wavetheory/lineardispersion.py AS REGENERATED FROM THE SOURCE on every run
   (coq/Generated/DispersionSrc.v, harness/translate_pointwise.py) are the hand-written model of
   OSU.Model.Dispersion, and the Newton loop assembled from the regenerated pieces is [kinv_batch].
   Every C07 theorem about the model therefore speaks about what the current source says, for finite depth;
   infinite depth (numpy inf) has no counterpart in R and stays tied by the correspondence runs only. *)
From Coq Require Import Reals List Bool Lra.
From Coquelicot Require Import Coquelicot.
From OSU.Model Require Import Dispersion.
From OSU.Proofs Require Import Dispersion.
From OSU.Generated Require Import DispersionSrc.
Import ListNotations.
Open Scope R_scope.

Lemma src_omega : forall k d g, intrinsic_dispersion_relation k d g = omega g k (Depth d).
Proof. reflexivity. Qed.

Lemma src_phase : forall k d g, phase_velocity k d g = phase g k (Depth d).
Proof. reflexivity. Qed.

Lemma src_ratio : forall k d g, ratio_group_velocity_to_phase_velocity k d g = n_ratio k (Depth d).
Proof. reflexivity. Qed.

Lemma src_cg : forall k d g, intrinsic_group_velocity k d g = cg g k (Depth d).
Proof. reflexivity. Qed.

Lemma src_jacobians : forall k d g,
  jacobian_wavenumber_to_radial_frequency k d g = 1 / cg g k (Depth d) /\
  jacobian_radial_frequency_to_wavenumber k d g = cg g k (Depth d).
Proof. split; reflexivity. Qed.

Lemma src_defaults :
  inverse_intrinsic_dispersion_relation_default_maximum_number_of_iterations = fuel_default /\
  inverse_intrinsic_dispersion_relation_default_tolerance_R = tol_default.
Proof. split; reflexivity. Qed.

(* the state the code carries through the loop for one element: (estimate, error of the estimate) *)
Definition st_of (g w d k : R) : R * R := (k, omega g k (Depth d) - w).

Lemma src_pre : forall w d g n tol,
  inverse_intrinsic_dispersion_relation_pre w d g n tol = st_of g w d (guess g w (Depth d)).
Proof.
  intros w d g n tol.
  unfold inverse_intrinsic_dispersion_relation_pre, st_of, guess.
  replace (w ^ 2) with (w * w) by ring.
  destruct (Rgt_dec w (sqrt (g / d))); reflexivity.
Qed.

Lemma src_body : forall w d g n tol k,
  inverse_intrinsic_dispersion_relation_body w d g n tol (st_of g w d k) =
  (st_of g w d (nstep g w (Depth d) k), conv g tol w (Depth d) (nstep g w (Depth d) k)).
Proof. reflexivity. Qed.

Lemma src_result : forall g w d k, inverse_intrinsic_dispersion_relation_result (st_of g w d k) = k.
Proof. reflexivity. Qed.

(* ---- the loop schema: for i in range(fuel): one pass over every element; leave when ALL exit tests hold *)
Section Schema.
  Variable St : Type.
  Variable body : R * R -> St -> St * bool.
  Fixpoint passes (fuel : nat) (ps : list (R * R)) (sts : list St) : bool * list St :=
    match fuel with
    | O => (false, sts)
    | S n =>
        let r := map2 body ps sts in
        if forallb snd r then (true, map fst r) else passes n ps (map fst r)
    end.
End Schema.

(* inverse_intrinsic_dispersion_relation on a batch of (angular frequency, finite depth) pairs, assembled
   from the regenerated pieces *)
Definition src_kinv_batch (g tol : R) (fuel : nat) (ps : list (R * R)) : bool * list R :=
  let r := passes (R * R)
             (fun p st => inverse_intrinsic_dispersion_relation_body (fst p) (snd p) g (INR fuel) tol st)
             fuel ps
             (map (fun p => inverse_intrinsic_dispersion_relation_pre (fst p) (snd p) g (INR fuel) tol) ps) in
  (fst r, map inverse_intrinsic_dispersion_relation_result (snd r)).

Definition finite (ps : list (R * R)) : list pt := map (fun p => (fst p, Depth (snd p))) ps.
Definition sts_of (g : R) (ps : list (R * R)) (ks : list R) : list (R * R) :=
  map2 (fun p k => st_of g (fst p) (snd p) k) ps ks.

Lemma pass_fst : forall g n tol ps ks,
  map fst (map2 (fun p st => inverse_intrinsic_dispersion_relation_body (fst p) (snd p) g n tol st) ps (sts_of g ps ks))
  = sts_of g ps (zipstep g (finite ps) ks).
Proof.
  intros g n tol ps; induction ps as [|[w d] ps IH]; intros [|k ks]; try reflexivity.
  cbn [sts_of map2 finite map zipstep fst snd].
  rewrite src_body. cbn [fst]. f_equal. apply IH.
Qed.

Lemma pass_snd : forall g n tol ps ks,
  forallb snd (map2 (fun p st => inverse_intrinsic_dispersion_relation_body (fst p) (snd p) g n tol st) ps (sts_of g ps ks))
  = allconv g tol (finite ps) (zipstep g (finite ps) ks).
Proof.
  intros g n tol ps; induction ps as [|[w d] ps IH]; intros [|k ks]; try reflexivity.
  cbn [sts_of map2 finite map zipstep allconv forallb fst snd].
  rewrite src_body. cbn [snd]. f_equal. apply IH.
Qed.

Lemma results_of : forall g ps ks, length ks = length ps ->
  map inverse_intrinsic_dispersion_relation_result (sts_of g ps ks) = ks.
Proof.
  intros g ps; induction ps as [|[w d] ps IH]; intros [|k ks] H; try reflexivity; try discriminate.
  cbn [sts_of map2 map fst snd]. rewrite src_result. f_equal. apply IH. simpl in H; congruence.
Qed.

Lemma zipstep_length : forall g ps ks, length ks = length ps -> length (zipstep g (finite ps) ks) = length ps.
Proof.
  intros g ps; induction ps as [|[w d] ps IH]; intros [|k ks] H; try reflexivity; try discriminate.
  cbn [finite map zipstep length]. f_equal. apply IH. simpl in H; congruence.
Qed.

Lemma passes_model : forall g tol n0 fuel ps ks, length ks = length ps ->
  let r := passes (R * R) (fun p st => inverse_intrinsic_dispersion_relation_body (fst p) (snd p) g n0 tol st)
                  fuel ps (sts_of g ps ks) in
  (fst r, map inverse_intrinsic_dispersion_relation_result (snd r)) = newton g tol fuel (finite ps) ks.
Proof.
  intros g tol n0 fuel; induction fuel as [|n IH]; intros ps ks H.
  - cbn [passes newton fst snd]. rewrite results_of by exact H. reflexivity.
  - cbn [passes newton]. rewrite pass_snd, pass_fst.
    destruct (allconv g tol (finite ps) (zipstep g (finite ps) ks)).
    + cbn [fst snd]. rewrite results_of by (apply zipstep_length; exact H). reflexivity.
    + apply IH. apply zipstep_length; exact H.
Qed.

Lemma pre_model : forall g n tol ps,
  map (fun p => inverse_intrinsic_dispersion_relation_pre (fst p) (snd p) g n tol) ps
  = sts_of g ps (guesses g (finite ps)).
Proof.
  intros g n tol ps; induction ps as [|[w d] ps IH]; [reflexivity|].
  cbn [map finite guesses sts_of map2 fst snd]. rewrite src_pre. f_equal. exact IH.
Qed.

Theorem src_kinv_batch_is_model : forall g tol fuel ps,
  src_kinv_batch g tol fuel ps = kinv_batch g tol fuel (finite ps).
Proof.
  intros g tol fuel ps. unfold src_kinv_batch, kinv_batch.
  rewrite pre_model. apply passes_model.
  unfold guesses, finite. rewrite !map_length. reflexivity.
Qed.

(* non-vacuity: a finite-depth batch *)
Example finite_batch_example : finite [(1, 10); (2, 5)] = [(1, Depth 10); (2, Depth 5)].
Proof. reflexivity. Qed.

(* ---- the C07 statements, restated on the regenerated source (finite depth) ---- *)

Lemma forall2_finite_src : forall g tol ps ks,
  Forall2 (fun p k => Rabs (omega g k (snd p) - fst p) / fst p < tol) (finite ps) ks ->
  Forall2 (fun p k => Rabs (intrinsic_dispersion_relation k (snd p) g - fst p) / fst p < tol) ps ks.
Proof.
  intros g tol ps; induction ps as [|[w d] ps IH]; intros ks H; cbn [finite map] in H;
    inversion H as [|x k xs ks' Hh Ht]; subst; constructor.
  - exact Hh.
  - apply IH. exact Ht.
Qed.

(* leaving the loop through the exit test: every element of the batch inverts the SOURCE's dispersion
   relation to the tolerance *)
Lemma src_exit_tolerance : forall g tol fuel ps ks,
  src_kinv_batch g tol fuel ps = (true, ks) ->
  Forall2 (fun p k => Rabs (intrinsic_dispersion_relation k (snd p) g - fst p) / fst p < tol) ps ks.
Proof.
  intros g tol fuel ps ks H. rewrite src_kinv_batch_is_model in H.
  apply forall2_finite_src. apply (kinv_exit_tolerance g tol fuel). exact H.
Qed.

(* the source's group velocity is the derivative of the source's dispersion relation *)
Lemma src_cg_is_derivative : forall g k d, 0 < g -> 0 < k -> 0 < d ->
  exists D, is_derive (fun k : R => intrinsic_dispersion_relation k d g) k D /\ 0 < D /\
            Rabs (intrinsic_group_velocity k d g - D) <= 1 / 1000 * D /\
            (k * d <= 5 -> intrinsic_group_velocity k d g = D).
Proof.
  intros g k d Hg Hk Hd.
  destruct (cg_is_derivative g k (Depth d) Hg Hk) as [D [H1 [H2 [H3 H4]]]].
  - exact Hd.
  - exists D. split; [exact H1|]. split; [exact H2|]. split; [exact H3|exact H4].
Qed.

Lemma src_ratio_range : forall k d g, 0 < k -> 0 < d ->
  1 / 2 <= ratio_group_velocity_to_phase_velocity k d g <= 1.
Proof. intros k d g Hk Hd. apply (ratio_range k (Depth d) Hk). exact Hd. Qed.
