#!/bin/sh
# usage: cq.sh File.v   (from /verif/coq) compile one file with project flags
cd /verif/coq && timeout ${CQ_TIMEOUT:-600} coqc -Q Lib OSU.Lib -Q Model OSU.Model -Q Generated OSU.Generated -Q Proofs OSU.Proofs -Q Properties OSU.Properties -Q Extract OSU.Extract -w -all "$@"
rc=$?
[ $rc -eq 124 ] && echo "cq.sh: TIMEOUT after ${CQ_TIMEOUT:-600}s compiling $*" >&2
exit $rc
