#!/bin/sh
# Build the whole framework offline from files on disk: Coq development (full .vo build),
# extraction, OCaml drivers.  Safe to re-run; incremental.
cd "$(dirname "$0")" || exit 2
mkdir -p build/ex evidence replays
exec /venv/bin/python harness/setup_all.py "$@"
